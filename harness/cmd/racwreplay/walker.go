package main

// An independent RAC file walker, written from doc/spec/rac-spec.md only (not
// from lib/rac/chunk_reader.go).  It makes no validity judgement: it parses
// raw fields at the places the specification tells a reader to look and turns
// them into events; spec/Trace_RacFormat.tla decides whether the events obey
// every rule of the specification.
//
// Events of one file ("trace"):
//   size, headmagic            CFileSize, do the first 3 bytes equal Magic
//   cands[]                    the two Root Node candidates (CFile start / end):
//                              where, arity byte, whether ((Arity*16)+16) fits,
//                              and the index (into visits) of the walk that
//                              starts there (0 = not walked: not parseable)
//   visits[]                   depth-first walk: one record per Branch Node
//                              visited, with the parent visit, the element
//                              index, the Branch COffset/CBias/DBias handed
//                              down, and every raw field of the node
//   leaves[]                   one record per Leaf Node with a non-empty
//                              DRange, in walk order: the three CRanges the
//                              walker used, dictionary header fields, the
//                              number of bytes an independent decoder
//                              produced
//
// A candidate is walked when it is "parseable": non-zero arity whose node size
// fits in the file, the Magic bytes are there and the two Arity bytes agree.
// Every valid node is parseable, so TLC can always evaluate the
// specification's root rule ("first look at the start; if and only if that
// fails, look at the end") on what is recorded.

import (
	"bytes"
	"compress/zlib"
	"encoding/hex"
	"fmt"
	"hash/crc32"
	"io"
)

const clampMax = 1 << 30 // TLC integers are 32-bit

type wNodeEv struct {
	V          int    `json:"v"`      // 1-based index in visits
	Parent     int    `json:"parent"` // 0 for a root candidate
	Elem       int    `json:"elem"`   // element index in the parent (0-based), 0 for a root
	Root       int    `json:"root"`   // visit index of the root candidate this walk started from
	COff       int    `json:"coff"`
	CBias      int    `json:"cbias"`
	DBias      int    `json:"dbias"`
	Arity      int    `json:"arity"`
	Arity2     int    `json:"arity2"`
	MagicOK    bool   `json:"magicok"`
	CkListed   int    `json:"cklisted"`
	CkComputed int    `json:"ckcomputed"`
	ReservedOK bool   `json:"reservedok"`
	DPtr       []int  `json:"dptr"` // Arity+1 values, dptr[0] = 0 (implicit)
	TTag       []int  `json:"ttag"` // Arity values
	CodecByte  int    `json:"codecbyte"`
	CPtr       []int  `json:"cptr"` // Arity+1 values
	CLen       []int  `json:"clen"` // Arity values
	STag       []int  `json:"stag"` // Arity values
	Version    int    `json:"version"`
	LongCodec  string `json:"longcodec"` // hex of the 7 Codec Element bytes, "" if none located
	Peek       []int  `json:"peek"`      // per element: Arity byte at (COff[a]+3) for a 0xFE element, -1 if outside the file, -2 for other elements
	Clamped    bool   `json:"clamped"`
}

type wDict struct {
	Present  bool   `json:"present"`
	Size     int    `json:"size"`     // size of the CRange
	DLen     int    `json:"dlen"`     // low 30 bits of the Dictionary Length
	HighBits int    `json:"highbits"` // the reserved high 2 bits
	CrcL     string `json:"crclisted"`
	CrcC     string `json:"crccomputed"`
}

type wLeafEv struct {
	Parent    int    `json:"parent"`
	Elem      int    `json:"elem"`
	Root      int    `json:"root"`
	DLo       int    `json:"dlo"`
	DHi       int    `json:"dhi"`
	Prim      [2]int `json:"prim"`
	Sec       [2]int `json:"sec"`
	Ter       [2]int `json:"ter"`
	STag      int    `json:"stag"`
	TTag      int    `json:"ttag"`
	SecDict   wDict  `json:"secdict"`
	TerDict   wDict  `json:"terdict"`
	Decodable bool   `json:"decodable"` // the walker has an independent decoder for this codec
	DecodeOK  bool   `json:"decodeok"`
	Explicit  int    `json:"explicit"` // number of bytes the decoder produced (0 if not decodable)
	explicit  []byte
}

type wCand struct {
	Where string `json:"where"` // "start" or "end"
	Arity int    `json:"arity"` // the Arity byte there (-1: file too short to have one)
	Fits  bool   `json:"fits"`
	Walk  int    `json:"walk"` // visit index of the walk's root, 0 if not walked
}

type wTrace struct {
	Size      int       `json:"size"`
	HeadMagic bool      `json:"headmagic"`
	Cands     []wCand   `json:"cands"`
	Visits    []wNodeEv `json:"visits"`
	Leaves    []wLeafEv `json:"leaves"`
	Truncated bool      `json:"truncated"` // the walker hit its own caps
}

type walker struct {
	f      []byte
	tr     *wTrace
	budget int
}

func u48(b []byte) int64 {
	return int64(b[0]) | int64(b[1])<<8 | int64(b[2])<<16 | int64(b[3])<<24 | int64(b[4])<<32 | int64(b[5])<<40
}

func clamp(v int64, c *bool) int {
	if v > clampMax {
		*c = true
		return clampMax
	}
	return int(v)
}

// parseNode reads the ((Arity * 16) + 16) bytes of a Branch Node at off, as
// laid out in the "Branch Nodes" diagram.  The caller guarantees they exist.
func (w *walker) parseNode(off int, arity int) wNodeEv {
	b := w.f[off : off+arity*16+16]
	n := wNodeEv{COff: off, Arity: arity}
	n.MagicOK = b[0] == 0x72 && b[1] == 0xC3 && b[2] == 0x63
	n.Arity2 = int(b[len(b)-1])
	n.CkListed = int(b[4]) | int(b[5])<<8
	// "the low 16 bits XOR'ed with the high 16 bits of the CRC-32 IEEE
	// checksum of the ((Arity * 16) + 10) bytes immediately after the Checksum"
	c := crc32.ChecksumIEEE(b[6 : 6+arity*16+10])
	n.CkComputed = int((c ^ (c >> 16)) & 0xFFFF)
	n.ReservedOK = true
	n.DPtr = make([]int, arity+1)
	n.TTag = make([]int, arity)
	n.CPtr = make([]int, arity+1)
	n.CLen = make([]int, arity)
	n.STag = make([]int, arity)
	// rows 0..Arity: | DPtr[i] |0|T|  (row 0 holds Magic, Arity, Checksum instead of DPtr[0])
	for i := 0; i <= arity; i++ {
		row := b[8*i : 8*i+8]
		if row[6] != 0 {
			n.ReservedOK = false
		}
		if i > 0 {
			n.DPtr[i] = clamp(u48(row), &n.Clamped)
		}
		if i < arity {
			n.TTag[i] = int(row[7])
		} else {
			n.CodecByte = int(row[7])
		}
	}
	// rows Arity+1 .. 2*Arity+1: | CPtr[i] |L|S|, the last one | CPtrMax |V|A|
	base := 8 * (arity + 1)
	for i := 0; i <= arity; i++ {
		row := b[base+8*i : base+8*i+8]
		if i < arity {
			n.CLen[i] = int(row[6])
			n.STag[i] = int(row[7])
		} else {
			n.Version = int(row[6])
		}
		if i < arity && n.TTag[i] == 0xFD {
			// a Codec Element: these 7 bytes are not a CPtr|CLen
			n.CPtr[i] = 0
			n.CLen[i] = 0
			continue
		}
		n.CPtr[i] = clamp(u48(row), &n.Clamped)
	}
	// Long Codec: "The lowest index i out of (c64 + (64 * 0)) ... such that
	// TTag[i] is 0xFD locates the 7 bytes that identifies the Codec."
	if n.CodecByte&0x80 != 0 {
		c64 := n.CodecByte & 0x3F
		for k := 0; k < 4; k++ {
			i := c64 + 64*k
			if i < arity && n.TTag[i] == 0xFD {
				row := b[base+8*i : base+8*i+8]
				n.LongCodec = hex.EncodeToString(row[:7])
				break
			}
		}
	}
	return n
}

func (w *walker) parseable(off int, arity int) bool {
	if arity <= 0 || off < 0 || off+arity*16+16 > len(w.f) {
		return false
	}
	b := w.f[off : off+arity*16+16]
	return b[0] == 0x72 && b[1] == 0xC3 && b[2] == 0x63 && int(b[len(b)-1]) == arity
}

func (w *walker) makeCRange(n *wNodeEv, i int) [2]int {
	// "If (i >= Arity) then that CRange is the empty range [COffMax .. COffMax)."
	coffMax := n.CBias + n.CPtr[n.Arity]
	if i >= n.Arity {
		return [2]int{coffMax, coffMax}
	}
	lo := n.CBias + n.CPtr[i]
	hi := coffMax
	if n.CLen[i] != 0 && lo+n.CLen[i]*1024 < hi {
		hi = lo + n.CLen[i]*1024
	}
	return [2]int{lo, hi}
}

func (w *walker) slice(r [2]int) []byte {
	if r[0] < 0 || r[1] > len(w.f) || r[0] > r[1] {
		return nil
	}
	return w.f[r[0]:r[1]]
}

func (w *walker) dictInfo(r [2]int) (wDict, []byte) {
	d := wDict{Size: r[1] - r[0]}
	b := w.slice(r)
	if d.Size <= 0 || b == nil {
		return d, nil
	}
	d.Present = true
	if len(b) < 8 {
		return d, nil
	}
	l := uint32(b[0]) | uint32(b[1])<<8 | uint32(b[2])<<16 | uint32(b[3])<<24
	d.HighBits = int(l >> 30)
	d.DLen = int(l & (1<<30 - 1))
	if d.HighBits != 0 || d.DLen+8 > len(b) {
		return d, nil
	}
	dict := b[4 : 4+d.DLen]
	cl := b[4+d.DLen : 8+d.DLen]
	d.CrcL = fmt.Sprintf("%02x%02x%02x%02x", cl[3], cl[2], cl[1], cl[0])
	d.CrcC = fmt.Sprintf("%08x", crc32.ChecksumIEEE(dict))
	return d, dict
}

// visit walks the Branch Node at (coff, cbias, dbias) depth first.
func (w *walker) visit(parent int, elem int, coff, cbias, dbias int, arity int, depth int) int {
	n := w.parseNode(coff, arity)
	n.Parent, n.Elem, n.CBias, n.DBias = parent, elem, cbias, dbias
	n.V = len(w.tr.Visits) + 1
	n.Root = n.V
	if parent != 0 {
		n.Root = w.tr.Visits[parent-1].Root
	}
	n.Peek = make([]int, arity)
	for a := 0; a < arity; a++ {
		n.Peek[a] = -2
		if n.TTag[a] == 0xFE {
			at := cbias + n.CPtr[a] + 3
			n.Peek[a] = -1
			if at >= 0 && at < len(w.f) {
				n.Peek[a] = int(w.f[at])
			}
		}
	}
	w.tr.Visits = append(w.tr.Visits, n)
	v := n.V
	for a := 0; a < arity; a++ {
		dlo, dhi := dbias+n.DPtr[a], dbias+n.DPtr[a+1]
		if dlo >= dhi {
			// "Nodes with an empty DRange should be skipped, even if they are Branch Nodes."
			continue
		}
		t := n.TTag[a]
		switch {
		case t == 0xFE:
			ccoff := cbias + n.CPtr[a]
			ccbias := cbias
			if n.STag[a] < arity {
				ccbias = cbias + n.CPtr[n.STag[a]]
			}
			if w.budget <= 0 || depth > 40 {
				w.tr.Truncated = true
				continue
			}
			carity := n.Peek[a]
			if !w.parseable(ccoff, carity) {
				continue // no child visit: Trace_RacFormat notices the gap
			}
			w.budget--
			w.visit(v, a, ccoff, ccbias, dlo, carity, depth+1)
		case t == 0xFD || (t >= 0xC0 && t < 0xFD):
			// attribute / reserved: nothing to walk
		default:
			w.leaf(&n, a, dlo, dhi)
		}
	}
	return v
}

func (w *walker) leaf(n *wNodeEv, a int, dlo, dhi int) {
	l := wLeafEv{Parent: n.V, Elem: a, Root: n.Root, DLo: dlo, DHi: dhi, STag: n.STag[a], TTag: n.TTag[a]}
	l.Prim = w.makeCRange(n, a)
	l.Sec = w.makeCRange(n, n.STag[a])
	l.Ter = w.makeCRange(n, n.TTag[a])
	var sdict []byte
	l.SecDict, sdict = w.dictInfo(l.Sec)
	l.TerDict, _ = w.dictInfo(l.Ter)
	prim := w.slice(l.Prim)
	codec := n.CodecByte &^ 0x40
	switch {
	case codec == 0x00 || (codec&0x80 != 0 && n.LongCodec == "00000000000000"):
		// RAC + Zeroes: "The CRanges are ignored."
		l.Decodable, l.DecodeOK, l.Explicit = true, true, 0
	case codec == 0x01 && prim != nil:
		l.Decodable = true
		var zr io.ReadCloser
		var err error
		if sdict != nil {
			zr, err = zlib.NewReaderDict(bytes.NewReader(prim), sdict)
		} else {
			zr, err = zlib.NewReader(bytes.NewReader(prim))
		}
		if err == nil {
			var out []byte
			out, err = io.ReadAll(zr)
			if err == nil {
				l.DecodeOK, l.Explicit, l.explicit = true, len(out), out
			}
		}
	case prim != nil && ((codec&0x80 != 0 && n.LongCodec == hex.EncodeToString([]byte("vmodel\x00"))) ||
		(codec == 0x02 && !(len(prim) >= 4 && prim[0] == 0x04 && prim[1] == 0x22 && prim[2] == 0x4D && prim[3] == 0x18))):
		// the harness's model codec: under its own Long Codec name, or in its
		// Short Codec 0x02 guise (anything that does not start with the LZ4
		// frame magic)
		l.Decodable = true
		out, _, err := decodeModel(prim)
		if err == nil {
			l.DecodeOK, l.Explicit, l.explicit = true, len(out), out
		}
	}
	w.tr.Leaves = append(w.tr.Leaves, l)
}

func walkFile(f []byte) *wTrace {
	tr := &wTrace{Size: len(f), Visits: []wNodeEv{}, Leaves: []wLeafEv{}, Cands: []wCand{}}
	w := &walker{f: f, tr: tr, budget: 200000}
	tr.HeadMagic = len(f) >= 3 && f[0] == 0x72 && f[1] == 0xC3 && f[2] == 0x63
	// "The fourth byte of the CFile gives the Arity, assuming the Root Node is at the CFile start."
	cs := wCand{Where: "start", Arity: -1}
	if len(f) >= 4 {
		cs.Arity = int(f[3])
		cs.Fits = cs.Arity*16+16 <= len(f)
		if w.parseable(0, cs.Arity) {
			cs.Walk = w.visit(0, 0, 0, 0, 0, cs.Arity, 0)
		}
	}
	// "the last byte of the CFile gives the Root Node's Arity"
	ce := wCand{Where: "end", Arity: -1}
	if len(f) >= 1 {
		ce.Arity = int(f[len(f)-1])
		ce.Fits = ce.Arity*16+16 <= len(f)
		off := len(f) - (ce.Arity*16 + 16)
		if w.parseable(off, ce.Arity) && !(off == 0 && cs.Walk != 0) {
			ce.Walk = w.visit(0, 0, off, 0, 0, ce.Arity, 0)
		} else if off == 0 && cs.Walk != 0 {
			ce.Walk = cs.Walk // the same bytes (a file that is exactly one node)
		}
	}
	tr.Cands = []wCand{cs, ce}
	return tr
}

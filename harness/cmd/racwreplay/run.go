package main

// Driving the real rac.Writer / rac.Reader: one run = one Writer, a sequence
// of Write calls, Close, Close; optionally with the k-th call on the
// underlying io.Writer / TempFile failing.

import (
	"bytes"
	"errors"
	"fmt"
	"io"
	"os"
	"sync"

	"github.com/google/wuffs/lib/rac"
	"github.com/google/wuffs/lib/raclz4"
	"github.com/google/wuffs/lib/raczlib"
	"github.com/google/wuffs/lib/raczstd"
)

var errInjected = errors.New("verif: injected fault")

// opCounter numbers every call made on the underlying writer / temp file.
type opCounter struct {
	n         int    // calls so far
	failAt    int    // 1-based; 0 = never
	partial   bool   // a failing Write first writes half of its data
	curCall   int    // index (1-based) of the API call in progress
	firedCall int    // API call during which the fault fired (0 = did not fire)
	firedOp   string // "w.Write", "t.Write", "t.Read", "t.Seek"
	perCall   []int  // number of underlying calls per API call
}

func (c *opCounter) tick(op string) bool {
	c.n++
	for len(c.perCall) < c.curCall {
		c.perCall = append(c.perCall, 0)
	}
	if c.curCall > 0 {
		c.perCall[c.curCall-1]++
	}
	if c.failAt != 0 && c.n == c.failAt {
		c.firedCall, c.firedOp = c.curCall, op
		return true
	}
	return false
}

type faultWriter struct {
	w    io.Writer
	c    *opCounter
	name string
}

func (f *faultWriter) Write(p []byte) (int, error) {
	if f.c.tick(f.name + ".Write") {
		n := 0
		if f.c.partial {
			n, _ = f.w.Write(p[:len(p)/2])
		}
		return n, errInjected
	}
	return f.w.Write(p)
}

// faultRW wraps a temp file that is not an io.Seeker.
type faultRW struct {
	rw io.ReadWriter
	c  *opCounter
}

func (f *faultRW) Write(p []byte) (int, error) {
	return (&faultWriter{f.rw, f.c, "t"}).Write(p)
}
func (f *faultRW) Read(p []byte) (int, error) {
	if f.c.tick("t.Read") {
		return 0, errInjected
	}
	return f.rw.Read(p)
}

// faultRWBuf wraps a bytes.Buffer-like temp file: like bytes.Buffer it
// offers WriteTo, which io.Copy prefers to its own 32 KiB read loop.  Every
// Read still goes through the fault logic.
type faultRWBuf struct {
	faultRW
	buf [512]byte
}

func (f *faultRWBuf) WriteTo(w io.Writer) (int64, error) {
	var n int64
	for {
		m, err := f.Read(f.buf[:])
		if m > 0 {
			k, werr := w.Write(f.buf[:m])
			n += int64(k)
			if werr != nil {
				return n, werr
			}
			if k < m {
				return n, io.ErrShortWrite
			}
		}
		if err == io.EOF {
			return n, nil
		}
		if err != nil {
			return n, err
		}
	}
}

// faultRWS wraps a temp file that is an io.Seeker.
type faultRWS struct {
	faultRW
	s io.Seeker
}

func (f *faultRWS) Seek(off int64, whence int) (int64, error) {
	if f.c.tick("t.Seek") {
		return 0, errInjected
	}
	return f.s.Seek(off, whence)
}

// memSeeker is an in-memory io.ReadWriteSeeker with a single position (like
// an os.File).
type memSeeker struct {
	b   []byte
	pos int64
}

func (m *memSeeker) Write(p []byte) (int, error) {
	end := m.pos + int64(len(p))
	if end > int64(len(m.b)) {
		m.b = append(m.b, make([]byte, end-int64(len(m.b)))...)
	}
	copy(m.b[m.pos:], p)
	m.pos = end
	return len(p), nil
}
func (m *memSeeker) Read(p []byte) (int, error) {
	if m.pos >= int64(len(m.b)) {
		return 0, io.EOF
	}
	n := copy(p, m.b[m.pos:])
	m.pos += int64(n)
	return n, nil
}
func (m *memSeeker) Seek(off int64, whence int) (int64, error) {
	switch whence {
	case io.SeekStart:
	case io.SeekCurrent:
		off += m.pos
	case io.SeekEnd:
		off += int64(len(m.b))
	}
	if off < 0 {
		return 0, errors.New("memSeeker: negative position")
	}
	m.pos = off
	return off, nil
}

type runCfg struct {
	Codec   string `json:"codec"` // model, zlib, lz4, zstd
	Index   string `json:"index"` // end, start
	Temp    string `json:"temp"`  // none, buffer, seeker, file
	Page    uint64 `json:"page"`
	Res     int    `json:"res"` // number of shared resources offered
	DChunk  uint64 `json:"dchunk"`
	CChunk  uint64 `json:"cchunk"`
	Kind    string `json:"kind"`  // model codec kind: stored, rle
	Guise   string `json:"guise"` // model codec identity: long (default) or short
	Cuts    []int  `json:"cuts"`
	Partial bool   `json:"partial"`
}

type runResult struct {
	Replies   []string
	Errs      []string
	File      []byte
	Ops       int
	PerCall   []int
	FiredCall int
	FiredOp   string
	CutDev    int
	CutTrace  []int
	Panic     string
}

var tmpDir = os.TempDir()

func resourcesFor(cfg runCfg, payloadHint []byte) [][]byte {
	if cfg.Res == 0 {
		return nil
	}
	rs := make([][]byte, cfg.Res)
	for i := range rs {
		if cfg.Codec == "model" {
			rs[i] = []byte(fmt.Sprintf("resource-%d-%s", i, bytes.Repeat([]byte{byte('a' + i%26)}, i%5)))
		} else {
			// dictionaries cut out of the payload itself, so that they do get used
			n := len(payloadHint)
			lo := (n / (cfg.Res + 1)) * i
			hi := lo + 4096
			if hi > n {
				hi = n
			}
			if lo > hi {
				lo = hi
			}
			rs[i] = append([]byte(fmt.Sprintf("dict%d:", i)), payloadHint[lo:hi]...)
		}
	}
	return rs
}

// The real codec writers are expensive to create (compress/flate allocates
// ~1 MB per writer; the cgo ones allocate C contexts), so they are recycled
// between runs: the rac.Writer under test gets a pooledCW whose Close hands
// the inner CodecWriter back instead of closing it.  From the rac.Writer's
// point of view the CodecWriter contract is unchanged.
type pooledCW struct {
	rac.CodecWriter
	kind string
}

var (
	cwMu   sync.Mutex
	cwFree = map[string][]rac.CodecWriter{}
)

func (p *pooledCW) Close() error {
	cwMu.Lock()
	cwFree[p.kind] = append(cwFree[p.kind], p.CodecWriter)
	cwMu.Unlock()
	return nil
}

func (p *pooledCW) Clone() rac.CodecWriter { return p.CodecWriter.Clone() }

func getPooled(kind string) rac.CodecWriter {
	cwMu.Lock()
	defer cwMu.Unlock()
	if l := cwFree[kind]; len(l) > 0 {
		cw := l[len(l)-1]
		cwFree[kind] = l[:len(l)-1]
		return &pooledCW{cw, kind}
	}
	switch kind {
	case "zlib":
		return &pooledCW{&raczlib.CodecWriter{}, kind}
	case "lz4":
		return &pooledCW{&raclz4.CodecWriter{}, kind}
	}
	return &pooledCW{&raczstd.CodecWriter{}, kind}
}

func makeCodecWriter(cfg runCfg) (rac.CodecWriter, *modelWriter) {
	switch cfg.Codec {
	case "zlib", "lz4", "zstd":
		return getPooled(cfg.Codec), nil
	}
	mw := &modelWriter{kind: cfg.Kind, cuts: cfg.Cuts, short: cfg.Guise == "short"}
	if mw.kind == "" {
		mw.kind = "stored"
	}
	if cfg.Res > 0 {
		mw.resPlan = "rot"
	}
	return mw, mw
}

// runWriter performs calls[0], calls[1], ... as Write calls, then Close twice.
func runWriter(cfg runCfg, calls [][]byte, resources [][]byte, failAt int) (res runResult) {
	ctr := &opCounter{failAt: failAt, partial: cfg.Partial}
	var sink bytes.Buffer
	cw, mw := makeCodecWriter(cfg)
	w := &rac.Writer{
		Writer:        &faultWriter{&sink, ctr, "w"},
		CodecWriter:   cw,
		CPageSize:     cfg.Page,
		DChunkSize:    cfg.DChunk,
		CChunkSize:    cfg.CChunk,
		ResourcesData: resources,
	}
	var cleanup func()
	if cfg.Index == "start" {
		w.IndexLocation = rac.IndexLocationAtStart
		switch cfg.Temp {
		case "buffer":
			w.TempFile = &faultRWBuf{faultRW: faultRW{&bytes.Buffer{}, ctr}}
		case "seeker":
			// a non-zero starting position, with unrelated bytes before it
			m := &memSeeker{b: []byte("JUNKJNK"), pos: 7}
			w.TempFile = &faultRWS{faultRW{m, ctr}, m}
		case "file":
			f, err := os.CreateTemp(tmpDir, "racw-*.tmp")
			if err != nil {
				panic(err)
			}
			f.Write([]byte("junk5"))
			cleanup = func() { f.Close(); os.Remove(f.Name()) }
			w.TempFile = &faultRWS{faultRW{f, ctr}, f}
		default:
			panic("IndexLocationAtStart needs a temp file kind")
		}
	}
	if cleanup != nil {
		defer cleanup()
	}
	reply := func(err error) {
		if err == nil {
			res.Replies = append(res.Replies, "ok")
			res.Errs = append(res.Errs, "")
		} else {
			res.Replies = append(res.Replies, "err")
			res.Errs = append(res.Errs, err.Error())
		}
	}
	func() {
		defer func() {
			if r := recover(); r != nil {
				res.Panic = fmt.Sprint(r)
			}
		}()
		for i, c := range calls {
			ctr.curCall = i + 1
			n, err := w.Write(c)
			if err == nil && n != len(c) {
				err = fmt.Errorf("verif: Write returned n=%d for %d bytes with a nil error", n, len(c))
			}
			reply(err)
		}
		ctr.curCall = len(calls) + 1
		reply(w.Close())
		ctr.curCall = len(calls) + 2
		reply(w.Close())
	}()
	res.File = append([]byte(nil), sink.Bytes()...)
	res.Ops, res.PerCall, res.FiredCall, res.FiredOp = ctr.n, ctr.perCall, ctr.firedCall, ctr.firedOp
	for len(res.PerCall) < len(calls)+2 {
		res.PerCall = append(res.PerCall, 0)
	}
	if mw != nil {
		res.CutDev, res.CutTrace = mw.cutDev, mw.cutTrace
	}
	return res
}

func readBack(file []byte, resources [][]byte, cfg runCfg) (out []byte, err error) {
	defer func() {
		if r := recover(); r != nil {
			err = fmt.Errorf("panic in rac.Reader: %v", r)
		}
	}()
	r := &rac.Reader{
		ReadSeeker:     bytes.NewReader(file),
		CompressedSize: int64(len(file)),
	}
	if cfg.Codec == "model" {
		r.CodecReaders = []rac.CodecReader{&modelReader{resources: resources, short: cfg.Guise == "short"}}
	} else {
		r.CodecReaders = []rac.CodecReader{&raczlib.CodecReader{}, &raclz4.CodecReader{}, &raczstd.CodecReader{}}
	}
	out, err = io.ReadAll(r)
	if cerr := r.Close(); err == nil {
		err = cerr
	}
	return out, err
}

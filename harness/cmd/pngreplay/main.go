// pngreplay drives github.com/google/wuffs/lib/uncompng (from the working tree
// the harness module `replace`s) through the cases of a job file, records what
// the io.Writer received, tokenises it with the independent walker
// (walker.go) and writes one ndjson event trace per Encode call for
// spec/PngStored.tla (C19).  It takes no verdict: pixel comparison with
// image/png.Decode is reported as the boolean of the "pix" event.
//
// usage: pngreplay -job job.json -events ev.ndjson -results res.json [-dump dir]
//
// job.json: {"cases":[{"id":7,"encodes":[{"w":3,"h":5,"ct":3,"depth":8,
//   "stride_extra":0,"fill":"rand","seed":1,"fail_at":0,"short_pix":false}]}]}
// All encodes of one case go through ONE uncompng.Encoder, in order.
//
// Trace of one Encode call:
//   begin  v=[w>>16,w&0xFFFF,h>>16,h&0xFFFF,depth,pngColourType,fail_at,position in case]
//   write  v=[n>>16,n&0xFFFF]  ok = the Write call succeeded      (one per call)
//   ret    v=[err!=nil, writerFailed]
//   ... walker events (only when the writer did not fail) ...
//   pix    v=[decodeOK,dimsOK,typeOK,mismatching bytes (capped)]  ok = all equal
//   end
package main

import (
	"bufio"
	"bytes"
	"encoding/json"
	"errors"
	"flag"
	"fmt"
	"image"
	"image/png"
	"math/rand"
	"os"
	"path/filepath"

	"github.com/google/wuffs/lib/uncompng"
)

type encodeJob struct {
	W           int    `json:"w"`
	H           int    `json:"h"`
	CT          int    `json:"ct"`    // uncompng.ColorType: 1 gray, 2 RGBX, 3 NRGBA
	Depth       int    `json:"depth"` // 8 | 16
	StrideExtra int    `json:"stride_extra"`
	Fill        string `json:"fill"` // rand | zero | ff | mix
	Seed        int64  `json:"seed"`
	FailAt      int    `json:"fail_at"`   // 0 = never; k = the k-th Write call fails
	ShortPix    bool   `json:"short_pix"` // len(pix) = (h-1)*stride + rowbytes instead of h*stride
}

type caseJob struct {
	ID      int         `json:"id"`
	Encodes []encodeJob `json:"encodes"`
}

type job struct {
	Cases []caseJob `json:"cases"`
}

type encodeResult struct {
	Case     int    `json:"case"`
	Idx      int    `json:"idx"`
	EvFrom   int    `json:"ev_from"` // 1-based line numbers in the events file
	EvTo     int    `json:"ev_to"`
	Writes   []int  `json:"writes"`
	Err      string `json:"err"`
	Failed   bool   `json:"failed"`
	Bytes    int    `json:"bytes"`
	PixOK    bool   `json:"pix_ok"`
	PixNote  string `json:"pix_note"`
	Panicked string `json:"panicked"`
}

var errInjected = errors.New("pngreplay: injected write failure")

type recWriter struct {
	buf    []byte
	sizes  []int
	okays  []bool
	failAt int
	failed bool
}

func (r *recWriter) Write(p []byte) (int, error) {
	r.sizes = append(r.sizes, len(p))
	if r.failAt > 0 && len(r.sizes) == r.failAt {
		r.failed = true
		r.okays = append(r.okays, false)
		return 0, errInjected
	}
	r.okays = append(r.okays, true)
	r.buf = append(r.buf, p...) // copy: the encoder reuses its buffer
	return len(p), nil
}

func inBPP(ct, depth int) int {
	n := 4
	if ct == 1 {
		n = 1
	}
	return n * depth / 8
}

func pngCT(ct int) int {
	switch ct {
	case 1:
		return 0
	case 2:
		return 2
	case 3:
		return 6
	}
	return 255
}

func makePix(e encodeJob) (pix []byte, stride int) {
	bpp := inBPP(e.CT, e.Depth)
	rowBytes := bpp * e.W
	stride = rowBytes + e.StrideExtra
	n := e.H * stride
	if e.ShortPix && e.H > 0 {
		n = (e.H-1)*stride + rowBytes
	}
	pix = make([]byte, n)
	rng := rand.New(rand.NewSource(e.Seed))
	switch e.Fill {
	case "zero":
	case "ff":
		for i := range pix {
			pix[i] = 0xFF
		}
	case "mix":
		// random bytes with runs of the extremes
		rng.Read(pix)
		for k := 0; k < 1+len(pix)/97; k++ {
			at := rng.Intn(len(pix))
			ln := 1 + rng.Intn(9)
			val := byte(0)
			if rng.Intn(2) == 0 {
				val = 0xFF
			}
			for i := at; i < at+ln && i < len(pix); i++ {
				pix[i] = val
			}
		}
	default:
		rng.Read(pix)
	}
	// the padding between rows is always garbage, whatever the fill
	if e.StrideExtra > 0 {
		for y := 0; y < e.H; y++ {
			lo := y*stride + rowBytes
			hi := lo + e.StrideExtra
			if hi > len(pix) {
				hi = len(pix)
			}
			for i := lo; i < hi; i++ {
				pix[i] = byte(0xA5 ^ rng.Intn(256))
			}
		}
	}
	return pix, stride
}

// comparePixels decodes with the standard library and compares with the input.
func comparePixels(out []byte, e encodeJob, pix []byte, stride int) (decodeOK, dimsOK, typeOK bool, mism int, note string) {
	img, err := png.Decode(bytes.NewReader(out))
	if err != nil {
		return false, false, false, 0, "image/png.Decode: " + err.Error()
	}
	decodeOK = true
	b := img.Bounds()
	dimsOK = b.Min.X == 0 && b.Min.Y == 0 && b.Dx() == e.W && b.Dy() == e.H
	if !dimsOK {
		return decodeOK, false, false, 0, fmt.Sprintf("decoded bounds %v, want %dx%d", b, e.W, e.H)
	}
	var got []byte
	var gstride int
	switch m := img.(type) {
	case *image.Gray:
		typeOK = e.CT == 1 && e.Depth == 8
		got, gstride = m.Pix, m.Stride
	case *image.Gray16:
		typeOK = e.CT == 1 && e.Depth == 16
		got, gstride = m.Pix, m.Stride
	case *image.RGBA:
		typeOK = e.CT == 2 && e.Depth == 8
		got, gstride = m.Pix, m.Stride
	case *image.RGBA64:
		typeOK = e.CT == 2 && e.Depth == 16
		got, gstride = m.Pix, m.Stride
	case *image.NRGBA:
		typeOK = e.CT == 3 && e.Depth == 8
		got, gstride = m.Pix, m.Stride
	case *image.NRGBA64:
		typeOK = e.CT == 3 && e.Depth == 16
		got, gstride = m.Pix, m.Stride
	}
	if !typeOK {
		return decodeOK, dimsOK, false, 0, fmt.Sprintf("decoded image type %T for ct=%d depth=%d", img, e.CT, e.Depth)
	}
	bpp := inBPP(e.CT, e.Depth)
	rowBytes := bpp * e.W
	for y := 0; y < e.H; y++ {
		want := pix[y*stride : y*stride+rowBytes]
		have := got[y*gstride : y*gstride+rowBytes]
		for i := 0; i < rowBytes; i++ {
			wv := want[i]
			if e.CT == 2 { // RGBX: the 4th channel is forced opaque
				if e.Depth == 8 && i%4 == 3 {
					wv = 0xFF
				} else if e.Depth == 16 && i%8 >= 6 {
					wv = 0xFF
				}
			}
			if have[i] != wv {
				if mism == 0 {
					note = fmt.Sprintf("first mismatch at row %d byte %d: got 0x%02X want 0x%02X", y, i, have[i], wv)
				}
				mism++
			}
		}
	}
	return
}

func main() {
	jobPath := flag.String("job", "", "job file")
	evPath := flag.String("events", "", "ndjson events out")
	resPath := flag.String("results", "", "results json out")
	dump := flag.String("dump", "", "directory to dump the produced files to")
	flag.Parse()
	raw, err := os.ReadFile(*jobPath)
	if err != nil {
		fmt.Fprintln(os.Stderr, err)
		os.Exit(2)
	}
	var jb job
	if err := json.Unmarshal(raw, &jb); err != nil {
		fmt.Fprintln(os.Stderr, err)
		os.Exit(2)
	}
	evf, err := os.Create(*evPath)
	if err != nil {
		fmt.Fprintln(os.Stderr, err)
		os.Exit(2)
	}
	evw := bufio.NewWriterSize(evf, 1<<20)
	line := 0
	emit := func(ev event) {
		if ev.V == nil {
			ev.V = []int{}
		}
		b, _ := json.Marshal(ev)
		evw.Write(b)
		evw.WriteByte('\n')
		line++
	}
	var results []encodeResult

	for _, c := range jb.Cases {
		enc := &uncompng.Encoder{} // one Encoder per case
		for idx, e := range c.Encodes {
			res := encodeResult{Case: c.ID, Idx: idx, EvFrom: line + 1}
			pix, stride := makePix(e)
			keep := append([]byte(nil), pix...)
			rw := &recWriter{failAt: e.FailAt}
			var encErr error
			func() {
				defer func() {
					if r := recover(); r != nil {
						res.Panicked = fmt.Sprint(r)
					}
				}()
				encErr = enc.Encode(rw, pix, e.W, e.H, stride, uncompng.Depth(e.Depth), uncompng.ColorType(e.CT))
			}()
			emit(event{E: "begin", V: []int{e.W >> 16, e.W & 0xFFFF, e.H >> 16, e.H & 0xFFFF, e.Depth, pngCT(e.CT), e.FailAt, idx}, Ok: true})
			for i, n := range rw.sizes {
				emit(event{E: "write", V: []int{n >> 16, n & 0xFFFF}, Ok: rw.okays[i]})
			}
			res.Writes = rw.sizes
			res.Failed = rw.failed
			res.Bytes = len(rw.buf)
			if encErr != nil {
				res.Err = encErr.Error()
			}
			if res.Panicked != "" {
				emit(event{E: "bad", V: []int{9}})
			} else {
				emit(event{E: "ret", V: []int{b2i(encErr != nil), b2i(rw.failed)}, Ok: bytes.Equal(keep, pix)}) // ok = input buffer left untouched (informational)
				if !rw.failed && encErr == nil {
					walk(rw.buf, emit)
					dOK, dimOK, tOK, mism, note := comparePixels(rw.buf, e, keep, stride)
					res.PixOK = dOK && dimOK && tOK && mism == 0
					res.PixNote = note
					if mism > 1000000 {
						mism = 1000000
					}
					emit(event{E: "pix", V: []int{b2i(dOK), b2i(dimOK), b2i(tOK), mism}, Ok: res.PixOK})
				}
			}
			emit(event{E: "end", V: []int{}, Ok: true})
			res.EvTo = line
			results = append(results, res)
			if *dump != "" {
				os.MkdirAll(*dump, 0o755)
				os.WriteFile(filepath.Join(*dump, fmt.Sprintf("case%d-%d.png", c.ID, idx)), rw.buf, 0o644)
			}
		}
	}
	evw.Flush()
	evf.Close()
	rb, _ := json.Marshal(results)
	if err := os.WriteFile(*resPath, rb, 0o644); err != nil {
		fmt.Fprintln(os.Stderr, err)
		os.Exit(2)
	}
}

func b2i(b bool) int {
	if b {
		return 1
	}
	return 0
}

// An independent PNG / zlib / stored-deflate tokeniser, written from the
// specifications (PNG 2nd ed. section 5, RFC 1950, RFC 1951 section 3.2.4),
// not from lib/uncompng.  It only TOKENISES: it turns bytes into events and
// measures the two 32-bit checksums (hash/crc32, hash/adler32).  Every
// structural decision (ordering, lengths, flags, LEN/NLEN, BFINAL, inflated
// length arithmetic, filter bytes) is taken by spec/PngStored.tla on the
// events.
//
// Event shape (uniform, one JSON object per line):  {"e":kind,"v":[ints],"ok":bool}
//
//	sig      v = the first 8 bytes
//	chunk    v = [t0,t1,t2,t3, len>>16, len&0xFFFF]      ok = CRC-32(type+data) matches
//	ihdr     v = the 13 payload bytes
//	zb       v = [byte]           one zlib-structural byte of the concatenated IDAT payload
//	zdata    v = [n, nrow, nbad]  a run of n stored bytes; nrow = how many of them sit at an
//	                              inflated offset that is a multiple of 1+rowbytes,
//	                              nbad = how many of those are non-zero
//	zend     v = [inflated>>16, inflated&0xFFFF]  after the 4th Adler byte; ok = Adler-32 matches
//	chunkend v = [payload bytes the walker attributed to events]
//	eof      v = [trailing bytes after IEND]
//	bad      v = [reason, ...]    the byte stream cannot be tokenised any further
package main

import (
	"hash"
	"hash/adler32"
	"hash/crc32"
)

type event struct {
	E  string `json:"e"`
	V  []int  `json:"v"`
	Ok bool   `json:"ok"`
}

const (
	zCMF = iota
	zFLG
	zBHDR
	zLEN0
	zLEN1
	zNLEN0
	zNLEN1
	zDATA
	zADLER
	zDONE
)

type zwalk struct {
	st      int
	bfinal  bool
	length  int
	rem     int
	nadler  int
	adlerRx uint32
	h       hash.Hash32
	inf     int64 // inflated bytes so far
	rowLen  int64 // 1 + row bytes (0 if unknown)
}

// feed tokenises one IDAT payload.
func (z *zwalk) feed(p []byte, emit func(event)) {
	for len(p) > 0 {
		if z.st == zDATA {
			n := z.rem
			if n > len(p) {
				n = len(p)
			}
			nrow, nbad := 0, 0
			if z.rowLen > 0 {
				// first offset >= inf that is a multiple of rowLen
				o := (z.inf + z.rowLen - 1) / z.rowLen * z.rowLen
				for ; o < z.inf+int64(n); o += z.rowLen {
					nrow++
					if p[o-z.inf] != 0 {
						nbad++
					}
				}
			}
			z.h.Write(p[:n])
			z.inf += int64(n)
			z.rem -= n
			p = p[n:]
			emit(event{E: "zdata", V: []int{n, nrow, nbad}, Ok: true})
			if z.rem == 0 {
				z.afterBlock()
			}
			continue
		}
		b := p[0]
		p = p[1:]
		emit(event{E: "zb", V: []int{int(b)}, Ok: true})
		switch z.st {
		case zCMF:
			z.st = zFLG
		case zFLG:
			z.st = zBHDR
		case zBHDR:
			z.bfinal = b&1 != 0
			z.st = zLEN0
		case zLEN0:
			z.length = int(b)
			z.st = zLEN1
		case zLEN1:
			z.length |= int(b) << 8
			z.st = zNLEN0
		case zNLEN0:
			z.st = zNLEN1
		case zNLEN1:
			z.rem = z.length
			z.st = zDATA
			if z.rem == 0 {
				z.afterBlock()
			}
		case zADLER:
			z.adlerRx = z.adlerRx<<8 | uint32(b)
			z.nadler++
			if z.nadler == 4 {
				z.st = zDONE
				emit(event{E: "zend", V: []int{int(z.inf >> 16), int(z.inf & 0xFFFF)}, Ok: z.adlerRx == z.h.Sum32()})
			}
		case zDONE:
			// bytes after the end of the zlib stream: reported as zb, the
			// grammar has no action for them.
		}
	}
}

func (z *zwalk) afterBlock() {
	if z.bfinal {
		z.st = zADLER
	} else {
		z.st = zBHDR
	}
}

func be32(b []byte) uint32 {
	return uint32(b[0])<<24 | uint32(b[1])<<16 | uint32(b[2])<<8 | uint32(b[3])
}

// walk tokenises a whole file.
func walk(data []byte, emit func(event)) {
	if len(data) < 8 {
		emit(event{E: "bad", V: []int{1, len(data)}})
		return
	}
	sig := make([]int, 8)
	for i := range sig {
		sig[i] = int(data[i])
	}
	emit(event{E: "sig", V: sig, Ok: true})
	p := data[8:]
	z := &zwalk{h: adler32.New()}
	for len(p) > 0 {
		if len(p) < 12 {
			emit(event{E: "bad", V: []int{2, len(p)}})
			return
		}
		n := be32(p)
		typ := p[4:8]
		if uint64(n)+12 > uint64(len(p)) {
			emit(event{E: "bad", V: []int{3, int(n >> 16), int(n & 0xFFFF), len(p)}})
			return
		}
		body := p[8 : 8+int(n)]
		crc := be32(p[8+int(n):])
		c := crc32.NewIEEE()
		c.Write(typ)
		c.Write(body)
		emit(event{E: "chunk", V: []int{int(typ[0]), int(typ[1]), int(typ[2]), int(typ[3]), int(n >> 16), int(n & 0xFFFF)}, Ok: c.Sum32() == crc})
		attributed := 0
		switch string(typ) {
		case "IHDR":
			v := make([]int, len(body))
			for i := range body {
				v[i] = int(body[i])
			}
			emit(event{E: "ihdr", V: v, Ok: true})
			attributed = len(body)
			if len(body) == 13 {
				w := int64(be32(body[0:]))
				depth := int64(body[8])
				ch := int64(0)
				switch body[9] {
				case 0, 3:
					ch = 1
				case 2:
					ch = 3
				case 4:
					ch = 2
				case 6:
					ch = 4
				}
				z.rowLen = 1 + (w*ch*depth+7)/8
			}
		case "IDAT":
			z.feed(body, emit)
			attributed = len(body)
		}
		emit(event{E: "chunkend", V: []int{attributed >> 16, attributed & 0xFFFF}, Ok: true})
		p = p[12+int(n):]
		if string(typ) == "IEND" {
			break
		}
	}
	emit(event{E: "eof", V: []int{len(p)}, Ok: true})
}

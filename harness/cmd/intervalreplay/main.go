// intervalreplay calls github.com/google/wuffs/lib/interval (from /repo's
// working tree) for every <<X, Y, op>> of the small universe of
// spec/Interval.tla and writes what the real code answered as a JSON table
// that TLC validates against the comprehension-style specification (C06).
//
// usage: intervalreplay -B 4 -lift none|translate|scale|box|rshbig -k 33 -c 4294967296 -out rows.json
//
// Row layout (see Interval.tla, Ans): [ok, empty, lf, lo, hf, hi, alias, fits].
// For a lifted table the operands are moved to a far-away region, the real
// code is called there, and the answer is moved back EXACTLY (fits = 0 when the
// un-lifting is not exact, e.g. a scaled result that is not a multiple of the
// scale); rows the lift does not apply to carry the base answer.
package main

import (
	"encoding/json"
	"flag"
	"fmt"
	"math/big"
	"os"

	"github.com/google/wuffs/lib/interval"
)

var ops = []string{"add", "sub", "mul", "quo", "lsh", "rsh", "and", "or", "unite", "intersect", "rshbig", "andsc", "orsc"}

func call(op string, x, y interval.IntRange) (interval.IntRange, bool) {
	switch op {
	case "add":
		return x.TryAdd(y)
	case "sub":
		return x.TrySub(y)
	case "mul":
		return x.TryMul(y)
	case "quo":
		return x.TryQuo(y)
	case "lsh":
		return x.TryLsh(y)
	case "rsh", "rshbig":
		return x.TryRsh(y)
	case "and", "andsc":
		return x.TryAnd(y)
	case "or", "orsc":
		return x.TryOr(y)
	case "unite":
		return x.TryUnite(y)
	case "intersect":
		return x.TryIntersect(y)
	}
	panic("bad op")
}

// The non-Try forms must agree with the Try forms where they exist.
func callPlain(op string, x, y interval.IntRange) (interval.IntRange, bool) {
	switch op {
	case "add":
		return x.Add(y), true
	case "sub":
		return x.Sub(y), true
	case "mul":
		return x.Mul(y), true
	case "and":
		return x.And(y), true
	case "or":
		return x.Or(y), true
	case "unite":
		return x.Unite(y), true
	case "intersect":
		return x.Intersect(y), true
	}
	return interval.IntRange{}, false
}

type ival struct {
	lf bool
	lo int64
	hf bool
	hi int64
}

func universe(B int64) []ival {
	nb := 2*B + 2
	u := make([]ival, 0, nb*nb)
	for li := int64(0); li < nb; li++ {
		for hi := int64(0); hi < nb; hi++ {
			v := ival{}
			if li > 0 {
				v.lf, v.lo = true, li-B-1
			}
			if hi < nb-1 {
				v.hf, v.hi = true, hi-B
			}
			u = append(u, v)
		}
	}
	return u
}

func (v ival) empty() bool { return v.lf && v.hf && v.lo > v.hi }

// lifting of one bound
type lifter struct {
	kind string
	k    uint     // scale / box exponent
	c    *big.Int // translation
}

func pow2(k uint) *big.Int { return new(big.Int).Lsh(big.NewInt(1), k) }

func (v ival) toRange(tr func(lo bool, b *big.Int) *big.Int) interval.IntRange {
	var r interval.IntRange
	if v.lf {
		r[0] = tr(true, big.NewInt(v.lo))
	}
	if v.hf {
		r[1] = tr(false, big.NewInt(v.hi))
	}
	return r
}

func ident(lo bool, b *big.Int) *big.Int { return b }

type row [9]int64

const limit = 1 << 30

func mkrow(z interval.IntRange, ok bool, alias bool, untr func(lo bool, b *big.Int) (*big.Int, bool)) row {
	var r row
	if !ok {
		// z must be IntRange{nil, nil} as documented; not part of the property, not checked.
		return row{0, 0, 0, 0, 0, 0, b2i(alias), 1, 0}
	}
	r[0] = 1
	r[6] = b2i(alias)
	r[7] = 1
	if z.Empty() {
		r[1] = 1
		return r
	}
	if z[0] != nil {
		v, exact := untr(true, new(big.Int).Set(z[0]))
		if !exact || !v.IsInt64() || v.Int64() >= limit || v.Int64() <= -limit {
			r[7] = 0
		} else {
			r[2], r[3] = 1, v.Int64()
		}
	}
	if z[1] != nil {
		v, exact := untr(false, new(big.Int).Set(z[1]))
		if !exact || !v.IsInt64() || v.Int64() >= limit || v.Int64() <= -limit {
			r[7] = 0
		} else {
			r[4], r[5] = 1, v.Int64()
		}
	}
	return r
}

func b2i(b bool) int64 {
	if b {
		return 1
	}
	return 0
}

type keptResult struct {
	z    interval.IntRange
	snap [2]string
	what string
	set  bool
}

var (
	kept                    keptResult
	nOK                     int
	histChanged, histShared int
	histExample             string
)

func snapRange(r interval.IntRange) [2]string {
	s := [2]string{"nil", "nil"}
	for i := range r {
		if r[i] != nil {
			s[i] = r[i].String()
		}
	}
	return s
}

// aliasCheck mutates the result's big.Ints and checks that the operands did
// not change and share no pointer with the result.
func aliasCheck(x, y, z interval.IntRange) bool {
	bad := false
	for _, zp := range z {
		if zp == nil {
			continue
		}
		for _, op := range []*big.Int{x[0], x[1], y[0], y[1]} {
			if op != nil && op == zp {
				bad = true
			}
		}
	}
	snap := func(r interval.IntRange) [2]string {
		s := [2]string{"nil", "nil"}
		for i := range r {
			if r[i] != nil {
				s[i] = r[i].String()
			}
		}
		return s
	}
	sx, sy := snap(x), snap(y)
	for _, zp := range z {
		if zp != nil {
			zp.Add(zp, big.NewInt(12345))
			zp.Lsh(zp, 70)
		}
	}
	if snap(x) != sx || snap(y) != sy {
		bad = true
	}
	return bad
}

func main() {
	B := flag.Int64("B", 4, "finite bounds range over -B..B")
	lift := flag.String("lift", "none", "none|translate|scale|scaledividend|box|rshbig|sparse")
	k := flag.Uint("k", 0, "exponent for scale/box")
	k2 := flag.Uint("k2", 0, "second exponent for scale (Y of mul)")
	cs := flag.String("c", "0", "translation of X (decimal)")
	ds := flag.String("d", "0", "translation of Y (decimal)")
	out := flag.String("out", "rows.json", "output table")
	hist := flag.Bool("hist", false, "call-history pass only: every operation over the universe, results kept across later calls; no table is written")
	flag.Parse()
	c, _ := new(big.Int).SetString(*cs, 10)
	d, _ := new(big.Int).SetString(*ds, 10)
	if c == nil || d == nil {
		fmt.Fprintln(os.Stderr, "bad -c/-d")
		os.Exit(2)
	}
	u := universe(*B)
	nops := 10
	if *lift == "rshbig" {
		nops = 11
	}
	if *lift == "sparse" {
		nops = 13
	}
	rows := make([]row, 0, nops*len(u)*len(u))
	lifted, plainMismatch := 0, 0
	for oi := 0; oi < nops; oi++ {
		op := ops[oi]
		for _, xv := range u {
			for _, yv := range u {
				trX, trY := ident, ident
				untr := func(lo bool, b *big.Int) (*big.Int, bool) { return b, true }
				applied := false
				switch *lift {
				case "translate":
					switch op {
					case "add", "sub":
						trX = func(lo bool, b *big.Int) *big.Int { return b.Add(b, c) }
						trY = func(lo bool, b *big.Int) *big.Int { return b.Add(b, d) }
						t := new(big.Int).Add(c, d)
						if op == "sub" {
							t = new(big.Int).Sub(c, d)
						}
						untr = func(lo bool, b *big.Int) (*big.Int, bool) { return b.Sub(b, t), true }
						applied = true
					case "unite", "intersect":
						trX = func(lo bool, b *big.Int) *big.Int { return b.Add(b, c) }
						trY = trX
						untr = func(lo bool, b *big.Int) (*big.Int, bool) { return b.Sub(b, c), true }
						applied = true
					}
				case "scale":
					sc := func(e uint) func(bool, *big.Int) *big.Int {
						return func(lo bool, b *big.Int) *big.Int { return b.Lsh(b, e) }
					}
					unsc := func(e uint) func(bool, *big.Int) (*big.Int, bool) {
						return func(lo bool, b *big.Int) (*big.Int, bool) {
							m := new(big.Int).Mod(b, pow2(e)) // Mod is Euclidean: 0 iff divisible
							return b.Rsh(b, e), m.Sign() == 0
						}
					}
					switch op {
					case "mul":
						trX, trY, untr, applied = sc(*k), sc(*k2), unsc(*k+*k2), true
					case "quo":
						trX, trY, applied = sc(*k), sc(*k), true
					case "lsh":
						trX, untr, applied = sc(*k), unsc(*k), true
					case "rsh":
						// (X * 2^k) >> (Y + k) == X >> Y   when Y has a finite lower bound >= 0
						if yv.lf && yv.lo >= 0 {
							kk := big.NewInt(int64(*k))
							trX = sc(*k)
							trY = func(lo bool, b *big.Int) *big.Int { return b.Add(b, kk) }
							applied = true
						}
					}
				case "scaledividend":
					// IntervalLift!LawScale, dividend-only clause: X with even (or infinite) bounds scaled by 2^k,
					// Y finite inside -2..2: the exact hull scales by 2^k as well.
					even := func(f bool, v int64) bool { return !f || v%2 == 0 }
					if op == "quo" && even(xv.lf, xv.lo) && even(xv.hf, xv.hi) && yv.lf && yv.hf && yv.lo >= -2 && yv.hi <= 2 {
						e := *k
						trX = func(lo bool, b *big.Int) *big.Int { return b.Lsh(b, e) }
						untr = func(lo bool, b *big.Int) (*big.Int, bool) {
							m := new(big.Int).Mod(b, pow2(e))
							return b.Rsh(b, e), m.Sign() == 0
						}
						applied = true
					}
				case "box":
					if op == "and" || op == "or" {
						e := *k
						bx := func(lo bool, b *big.Int) *big.Int {
							b.Lsh(b, e)
							if !lo {
								b.Add(b, pow2(e))
								b.Sub(b, big.NewInt(1))
							}
							return b
						}
						trX, trY = bx, bx
						untr = func(lo bool, b *big.Int) (*big.Int, bool) {
							if !lo {
								b.Add(b, big.NewInt(1))
							}
							m := new(big.Int).Mod(b, pow2(e))
							b.Rsh(b, e)
							if !lo {
								b.Sub(b, big.NewInt(1))
							}
							return b, m.Sign() == 0
						}
						applied = true
					}
				case "rshbig":
					if op == "rshbig" {
						// large shift amounts: every result is -1 or 0
						trY = func(lo bool, b *big.Int) *big.Int { return b.Add(b, c) }
						applied = true
					}
				}
				if *lift == "sparse" && (op == "andsc" || op == "orsc") {
					// X' = [a*2^k, b*2^k]: all integers in between (not a box); see Interval.tla, SparseExpected
					if !(xv.lf && xv.hf && yv.lf && yv.hf) || xv.empty() || yv.empty() {
						rows = append(rows, row{2, 0, 0, 0, 0, 0, 0, 1, 0})
						continue
					}
					e := *k
					sc := func(lo bool, b *big.Int) *big.Int { return b.Lsh(b, e) }
					xs, ys := xv.toRange(sc), yv.toRange(sc)
					z, ok := call(op, xs, ys)
					lifted++
					r := row{b2i(ok), 0, 0, 0, 0, 0, 0, 1, 0}
					if ok {
						if z.Empty() || z[0] == nil || z[1] == nil {
							r[1] = b2i(z.Empty())
							r[7] = 0
						} else {
							m := new(big.Int).Mod(z[0], pow2(e))
							L := new(big.Int).Rsh(new(big.Int).Set(z[0]), e)
							hi := new(big.Int).Set(z[1])
							F := int64(0)
							if new(big.Int).Mod(hi, pow2(e)).Sign() != 0 {
								// must then be H*2^k + (2^k - 1)
								hi.Add(hi, big.NewInt(1))
								F = 1
							}
							mh := new(big.Int).Mod(hi, pow2(e))
							H := new(big.Int).Rsh(hi, e)
							if F == 1 {
								H.Sub(H, big.NewInt(1))
							}
							if m.Sign() != 0 || mh.Sign() != 0 || !L.IsInt64() || !H.IsInt64() || L.Int64() >= limit || L.Int64() <= -limit || H.Int64() >= limit || H.Int64() <= -limit {
								r[7] = 0
							} else {
								r[2], r[3], r[4], r[5], r[8] = 1, L.Int64(), 1, H.Int64(), F
							}
						}
						r[6] = b2i(aliasCheck(xs, ys, z))
					}
					rows = append(rows, r)
					continue
				}
				x := xv.toRange(trX)
				y := yv.toRange(trY)
				if applied {
					lifted++
				}
				z, ok := call(op, x, y)
				// call history: a result that the caller keeps must not change when LATER calls are made, and must not
				// share storage with a later result (every 7th successful result is kept until the next one replaces it)
				if kept.set {
					if snapRange(kept.z) != kept.snap {
						histChanged++
						if histExample == "" {
							histExample = fmt.Sprintf("the kept result %v of %s became %v after later calls (last: %s on %v, %v)", kept.snap, kept.what, snapRange(kept.z), op, snapRange(x), snapRange(y))
						}
						kept.set = false
					} else if ok {
						for _, zp := range z {
							for _, kp := range kept.z {
								if zp != nil && zp == kp {
									histShared++
									if histExample == "" {
										histExample = fmt.Sprintf("the result of %s on %v, %v shares a *big.Int with the kept result of %s", op, snapRange(x), snapRange(y), kept.what)
									}
								}
							}
						}
					}
				}
				if pz, has := callPlain(op, xv.toRange(trX), yv.toRange(trY)); has {
					if !ok || !pz.Eq(z) {
						plainMismatch++
					}
				}
				alias := false
				if ok {
					// look at z before aliasCheck scribbles on it
					zc := interval.IntRange{}
					if z[0] != nil {
						zc[0] = new(big.Int).Set(z[0])
					}
					if z[1] != nil {
						zc[1] = new(big.Int).Set(z[1])
					}
					nOK++
					if nOK%7 == 0 {
						// this result is kept as it is (no scribbling on it): its row's alias column only says whether it shares
						// a pointer with its operands
						kept = keptResult{z: z, snap: snapRange(z), what: fmt.Sprintf("%s on %v, %v", op, snapRange(x), snapRange(y)), set: true}
						for _, zp := range z {
							for _, opnd := range []*big.Int{x[0], x[1], y[0], y[1]} {
								if zp != nil && zp == opnd {
									alias = true
								}
							}
						}
					} else {
						alias = aliasCheck(x, y, z)
					}
					z = zc
				}
				if !*hist {
					rows = append(rows, mkrow(z, ok, alias, untr))
				} else if alias {
					histShared++
				}
			}
		}
	}
	f, err := os.Create(*out)
	if err != nil {
		fmt.Fprintln(os.Stderr, err)
		os.Exit(2)
	}
	enc := json.NewEncoder(f)
	if err := enc.Encode(rows); err != nil {
		fmt.Fprintln(os.Stderr, err)
		os.Exit(2)
	}
	f.Close()
	st := map[string]interface{}{"rows": len(rows), "lifted_rows": lifted, "plain_vs_try_mismatch": plainMismatch, "universe": len(u),
		"kept_results_changed": histChanged, "results_sharing_storage_with_kept": histShared, "history_example": histExample}
	json.NewEncoder(os.Stdout).Encode(st)
}

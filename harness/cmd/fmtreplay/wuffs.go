package main

import (
	"bytes"
	"encoding/json"
	"os"
	"strconv"
	"strings"
	"time"

	"github.com/google/wuffs/lang/parse"
	"github.com/google/wuffs/lang/render"
	t "github.com/google/wuffs/lang/token"
)

// wuffsItem is one line of the input: pieces printed by TLC or a file.
type wuffsItem struct {
	P    []string `json:"p"`
	File string   `json:"file"`
}

var markers = strings.NewReplacer(
	"<nl>", "\n", "<sp>", " ", "<tab>", "\t", "<cr>", "\r",
	"<dq>", "\"", "<sq>", "'", "<bs>", "\\")

func (it *wuffsItem) source() ([]byte, error) {
	if it.File != "" {
		return os.ReadFile(it.File)
	}
	var b bytes.Buffer
	for _, p := range it.P {
		b.WriteString(markers.Replace(p))
	}
	return b.Bytes(), nil
}

// A stream is the sequence of tokens and comments of a source in reading
// order (a line's comment follows the line's tokens), as three parallel
// arrays:
//
//	k[i] = 0 a token that is not a numeric literal, v[i] its text
//	k[i] = 1 a numeric literal (its text starts with a digit), v[i] its text,
//	         n[i] its bytes
//	k[i] = 2 a comment: v[i] its text without the trailing blanks, n[i] those
//	         trailing blanks (bytes)
//
// Texts are made ASCII by strconv.QuoteToASCII (without the outer quotes), an
// injective mapping.
type stream struct {
	K []int    `json:"k"`
	V []string `json:"v"`
	N [][]int  `json:"n"`
}

func ascii(s string) string {
	q := strconv.QuoteToASCII(s)
	return q[1 : len(q)-1]
}

func (s *stream) add(k int, v string, n []int) {
	if n == nil {
		n = []int{}
	}
	s.K = append(s.K, k)
	s.V = append(s.V, ascii(v))
	s.N = append(s.N, n)
}

func makeStream(tm *t.Map, tokens []t.Token, comments []string) stream {
	s := stream{K: []int{}, V: []string{}, N: [][]int{}}
	ci := 0
	flush := func(before uint32) { // comments of lines < before
		for ; ci < len(comments) && uint32(ci) < before; ci++ {
			c := comments[ci]
			if c == "" {
				continue
			}
			body := strings.TrimRight(c, " \t")
			s.add(2, body, toInts([]byte(c[len(body):])))
		}
	}
	for _, tok := range tokens {
		flush(tok.Line)
		text := tm.ByID(tok.ID)
		if text != "" && '0' <= text[0] && text[0] <= '9' {
			s.add(1, text, toInts([]byte(text)))
		} else {
			s.add(0, text, nil)
		}
	}
	flush(^uint32(0))
	for ; ci < len(comments); ci++ { // a comment on line 2^32-1 cannot exist (maxLine), for completeness
		if comments[ci] != "" {
			s.add(2, comments[ci], nil)
		}
	}
	return s
}

// wuffsRow is what the specification (WuffsLayout.tla, Accept) reads.
type wuffsRow struct {
	ID int `json:"id"`
	// Tok: token.Tokenize succeeded; Acc: and parse.Parse too (what
	// cmd/wuffsfmt demands before it renders).  Why names the stage that said no.
	Tok bool   `json:"tok"`
	Acc bool   `json:"acc"`
	Why string `json:"why"`
	// St: "ok", or how render.Render ended otherwise ("error", "panic",
	// "hang", "runaway"); "none" when the source does not tokenize.
	St string `json:"st"`
	A  stream `json:"a"` // stream of the source
	B  stream `json:"b"` // stream of the output
	// Tok2/Parse2: the output tokenizes / parses.
	Tok2   bool `json:"tok2"`
	Parse2 bool `json:"parse2"`
	// O: the output, P: the output of formatting O again (ASCII-quoted), Q
	// how that second pass ended ("ok", "tokenize", "error", "panic", ...).
	O   string `json:"o"`
	Q   string `json:"q"`
	P   string `json:"p"`
	Msg string `json:"msg,omitempty"`
	// Size of the source, for the statistics.
	Len int `json:"len"`
	// Cand: the comparison made here (sameStream etc., a transport-level
	// filter) found a difference, so the row must go to TLC; Sampled: chosen
	// by the seeded sample.  Not read by the specification.
	Cand    bool `json:"cand"`
	Sampled bool `json:"sampled"`
}

func numNorm(c []int) string {
	b := make([]byte, 0, len(c))
	for _, x := range c {
		if x == '_' {
			continue
		}
		if 'a' <= x && x <= 'z' {
			x -= 'a' - 'A'
		}
		b = append(b, byte(x))
	}
	return string(b)
}

// sameStream mirrors WuffsLayout!SameStream; it only selects which rows are
// written out in full (every difference it finds is judged by TLC, and a
// seeded sample of the rows it finds equal is judged by TLC as well).
func sameStream(a, b *stream) bool {
	if len(a.K) != len(b.K) {
		return false
	}
	for i := range a.K {
		if a.K[i] != b.K[i] {
			return false
		}
		if a.K[i] == 1 {
			if numNorm(a.N[i]) != numNorm(b.N[i]) {
				return false
			}
		} else if a.V[i] != b.V[i] {
			return false
		}
	}
	return true
}

func (r *wuffsRow) candidate() bool {
	if r.Acc {
		return !(r.St == "ok" && r.Tok2 && sameStream(&r.A, &r.B) && r.Parse2 && r.Q == "ok" && r.P == r.O)
	}
	if r.Tok && r.St == "ok" {
		return !(r.Tok2 && sameStream(&r.A, &r.B) && !r.Parse2 && r.Q == "ok" && r.P == r.O)
	}
	return false
}

// Statistics: the classes of tokens that were seen next to each other on a
// line of an accepted source.
var seenPairs, seenTriples = map[string]bool{}, map[string]bool{}

func tokClass(tm *t.Map, id t.ID) string {
	switch {
	case id.IsNumLiteral(tm):
		return "NUM"
	case id.IsDQStrLiteral(tm):
		return "DQ"
	case id.IsSQStrLiteral(tm):
		return "SQ"
	case id.IsIdent(tm):
		return "IDENT"
	}
	return tm.ByID(id)
}

func adjacency(tm *t.Map, tokens []t.Token) (pairs, triples []string) {
	for i := 1; i < len(tokens); i++ {
		if tokens[i].Line != tokens[i-1].Line {
			continue
		}
		p := tokClass(tm, tokens[i-1].ID) + " " + tokClass(tm, tokens[i].ID)
		if !seenPairs[p] {
			seenPairs[p] = true
			pairs = append(pairs, p)
		}
		if i >= 2 && tokens[i-2].Line == tokens[i].Line {
			q := tokClass(tm, tokens[i-2].ID) + " " + p
			if !seenTriples[q] {
				seenTriples[q] = true
				triples = append(triples, q)
			}
		}
	}
	return
}

var parseOpts = &parse.Options{AllowDoubleUnderscoreNames: true}

func emptyStream() stream { return stream{K: []int{}, V: []string{}, N: [][]int{}} }

func wuffsOne(i int, line []byte) reply {
	var it wuffsItem
	if err := json.Unmarshal(line, &it); err != nil {
		die("line %d: %v", i, err)
	}
	src, err := it.source()
	if err != nil {
		die("line %d: %v", i, err)
	}
	budget, capb := time.Duration(*budgetMs)*time.Millisecond, uint64(*capMB)<<20
	if m := uint64(len(src)) * 512; m > capb {
		capb = m
	}
	row := wuffsRow{ID: i, St: "none", Q: "none", A: emptyStream(), B: emptyStream(), Len: len(src)}
	stage := "tokenize"
	var pairs, triples []string
	mk := func(bad bool) reply {
		row.Cand = bad || row.candidate()
		row.Sampled = sampled(i)
		if it.File != "" && *sampleN > 0 && len(src) <= *fileCap {
			row.Sampled = true // corpus files below the cap are always judged by TLC
		}
		rep := reply{I: i, Bad: bad, Pairs: pairs, Triples: triples, Acc: row.Acc, Tok: row.Tok, Toks: len(row.A.K),
			Chg: row.Acc && row.St == "ok" && row.O != ascii(string(src))}
		if !row.Cand && !row.Sampled {
			rep.Fine = true
			return rep
		}
		b, err := json.Marshal(row)
		if err != nil {
			die("%v", err)
		}
		rep.R = b
		return rep
	}
	wd.mu.Lock()
	wd.onFire = func(status string) reply {
		switch stage {
		case "render":
			row.St = status
		case "render2", "tokenize2":
			row.Q = status
		default:
			// a tokenizer / parser that does not return is property C11's
			// business; here the source merely counts as not accepted
			row.Why = stage + "-" + status
		}
		return mk(true)
	}
	wd.mu.Unlock()

	// The calls of cmd/wuffsfmt's do().
	tm := &t.Map{}
	var tokens []t.Token
	var comments []string
	var terr error
	if p := guard(budget, capb, func() { tokens, comments, terr = t.Tokenize(tm, "src.wuffs", src) }); p != "" {
		row.Why, row.Msg = "tokenize-panic", p
		return mk(false)
	}
	if terr != nil {
		row.Why = "tokenize"
		return mk(false)
	}
	row.Tok = true
	row.A = makeStream(tm, tokens, comments)
	stage = "parse"
	var perr error
	if p := guard(budget, capb, func() { _, perr = parse.Parse(tm, "src.wuffs", tokens, parseOpts) }); p != "" {
		row.Why, row.Msg = "parse-panic", p
		perr = os.ErrInvalid
	} else if perr != nil {
		row.Why = "parse"
	}
	row.Acc = perr == nil
	if row.Acc {
		pairs, triples = adjacency(tm, tokens)
	}

	stage = "render"
	buf := &bytes.Buffer{}
	var rerr error
	if p := guard(budget, capb, func() { rerr = render.Render(buf, tm, tokens, comments) }); p != "" {
		row.St, row.Msg = "panic", p
		return mk(row.Acc)
	}
	if rerr != nil {
		// cmd/wuffsfmt returns the error and writes nothing: not accepted.
		row.St, row.Msg = "error", rerr.Error()
		if row.Acc {
			row.Acc, row.Why = false, "render-error"
		}
		return mk(false)
	}
	row.St = "ok"
	out := append([]byte(nil), buf.Bytes()...)
	row.O = ascii(string(out))

	// The same calls on the output.
	stage = "tokenize2"
	tm2 := &t.Map{}
	var tokens2 []t.Token
	var comments2 []string
	if p := guard(budget, capb, func() { tokens2, comments2, terr = t.Tokenize(tm2, "out.wuffs", out) }); p != "" {
		row.Q, row.Msg = "tokenize-panic", p
		return mk(row.Acc)
	}
	if terr != nil {
		row.Q = "tokenize"
		return mk(false)
	}
	row.Tok2 = true
	row.B = makeStream(tm2, tokens2, comments2)
	stage = "parse2"
	if p := guard(budget, capb, func() { _, perr = parse.Parse(tm2, "out.wuffs", tokens2, parseOpts) }); p != "" {
		row.Msg = "parse2-panic: " + p
		perr = os.ErrInvalid
	}
	row.Parse2 = perr == nil
	stage = "render2"
	buf2 := &bytes.Buffer{}
	if p := guard(budget, capb, func() { rerr = render.Render(buf2, tm2, tokens2, comments2) }); p != "" {
		row.Q, row.Msg = "panic", p
		return mk(row.Acc)
	}
	if rerr != nil {
		row.Q, row.Msg = "error", rerr.Error()
		return mk(false)
	}
	row.Q = "ok"
	row.P = ascii(buf2.String())
	return mk(false)
}

// fmtreplay drives the two formatters of google/wuffs (from the working tree
// named by the harness module's `replace`) for property C12 and records what
// they did, for TLC to judge against spec/CLexical.tla and spec/WuffsLayout.tla.
//
//	fmtreplay -mode indent -in texts.ndjson -out rows [-chunk N] [-j N]
//	    every line of texts.ndjson is {"t":[bytes], "k":bool} as printed by TLC
//	    (CLexical!Emit).  For each text and each of {2 spaces, 4 spaces, tabs}:
//	    out = dumbindent.FormatBytes(nil, t, opt), then FormatBytes(nil, out, opt).
//	    Row: {"t":[..], "k":.., "r":[{"s":status, "o":out, "q":status2, "p":out2} x3]}.
//	    Rows go to rows-000.json, rows-001.json, ... (JSON arrays, N rows each).
//	fmtreplay -mode wuffs -in sources.ndjson -out rows [-chunk N] [-j N]
//	    every line is {"p":[pieces]} (printed by TLC, WuffsLayout!Emit; the pieces
//	    are concatenated after replacing the markers <nl> <sp> <tab> <cr> <dq> <sq>
//	    <bs>) or {"file": path}.  Makes the calls cmd/wuffsfmt makes
//	    (token.Tokenize, parse.Parse, render.Render) and then the same on the
//	    output.  Row: see wuffs.go.
//	fmtreplay -mode dumpsrc -in sources.ndjson -index I
//	    prints the bytes of source I (for replay files).
//
// The formatters run in worker processes (this program with -mode worker)
// under a watchdog: a call that has not returned within the budget, or whose
// process heap has outgrown the cap (no correct output can be larger than a
// small multiple of its input), is recorded as "hang" / "runaway" and the
// worker is replaced.  Such a status is kept only if a second, fresh run with
// 4x the budget and 4x the cap ends the same way (texts flagged k - the
// construct of the known finding - are not re-run; the check confirms the
// committed witness separately).
//
// This program judges nothing: it drives, records and transports.
package main

import (
	"bufio"
	"encoding/json"
	"flag"
	"fmt"
	"os"
	"os/exec"
	"runtime"
	"sort"
	"strconv"
	"strings"
	"sync"
)

var (
	mode     = flag.String("mode", "", "indent | wuffs | worker | dumpsrc")
	kind     = flag.String("kind", "indent", "worker: indent | wuffs")
	inPath   = flag.String("in", "", "")
	outPath  = flag.String("out", "", "")
	chunk    = flag.Int("chunk", 50000, "rows per output file")
	jobs     = flag.Int("j", runtime.NumCPU(), "worker processes")
	budgetMs = flag.Int("budget", 3000, "watchdog budget per call, ms")
	capMB    = flag.Int("capmb", 256, "heap cap per worker, MB")
	kBudget  = flag.Int("kbudget", 300, "budget for texts flagged k, ms")
	kCapMB   = flag.Int("kcapmb", 48, "heap cap for texts flagged k, MB")
	from     = flag.Int("from", 0, "worker: first line")
	to       = flag.Int("to", -1, "worker: one past the last line")
	offFlag  = flag.Int64("off", 0, "worker: byte offset of line -from")
	index    = flag.Int("index", 0, "dumpsrc: line")
	noConf   = flag.Bool("noconfirm", false, "do not re-run non-ok results")
	sampleN  = flag.Int("sample", 0, "indent: about this many rows that agree with the expectation are written out too")
	total    = flag.Int("total", 0, "worker: number of lines (for the sample)")
	seed     = flag.Int("seed", 1, "seed of the sample")
	fileCap  = flag.Int("filecap", 0, "wuffs: corpus files up to this many bytes are always written out")
	statsOut = flag.String("stats", "", "wuffs: write the adjacency statistics here")
)

func die(format string, a ...interface{}) {
	fmt.Fprintf(os.Stderr, "fmtreplay: "+format+"\n", a...)
	os.Exit(2)
}

// readLines reads the lines [first, first+count) of the file (count < 0: all
// of them), starting at byte offset off, which must be where line `first`
// begins.  Every line, also an empty one, counts.  offs[i] is the byte offset
// of line first+i.
func readLines(path string, off int64, count int) (lines [][]byte, offs []int64) {
	f, err := os.Open(path)
	if err != nil {
		die("%v", err)
	}
	defer f.Close()
	if off > 0 {
		if _, err := f.Seek(off, 0); err != nil {
			die("%v", err)
		}
	}
	r := bufio.NewReaderSize(f, 1<<20)
	pos := off
	for count < 0 || len(lines) < count {
		b, err := r.ReadBytes('\n')
		if len(b) > 0 {
			offs = append(offs, pos)
			pos += int64(len(b))
			if b[len(b)-1] == '\n' {
				b = b[:len(b)-1]
			}
			lines = append(lines, b)
		}
		if err != nil {
			break
		}
	}
	return lines, offs
}

func main() {
	flag.Parse()
	switch *mode {
	case "indent", "wuffs":
		parent(*mode)
	case "worker":
		worker()
	case "dumpsrc":
		lines, _ := readLines(*inPath, 0, -1)
		if *index < 0 || *index >= len(lines) {
			die("no line %d", *index)
		}
		var it wuffsItem
		if err := json.Unmarshal(lines[*index], &it); err != nil {
			die("%v", err)
		}
		src, err := it.source()
		if err != nil {
			die("%v", err)
		}
		os.Stdout.Write(src)
	default:
		die("unknown -mode %q", *mode)
	}
}

// reply is one line of a worker's stdout.
type reply struct {
	I int             `json:"i"`
	R json.RawMessage `json:"r"` // the row, minus what the parent adds
	// Bad is set when the row records a call that did not return normally.
	Bad bool `json:"bad,omitempty"`
	// Fine: every answer equals the expectation exported by TLC (indent) /
	// the transport-level comparison found nothing (wuffs) and the row is not
	// in the sample; no row is written.
	Fine bool `json:"fine,omitempty"`
	// wuffs statistics
	Pairs   []string `json:"pairs,omitempty"`
	Triples []string `json:"triples,omitempty"`
	Acc     bool     `json:"acc,omitempty"`
	Tok     bool     `json:"tok,omitempty"`
	Toks    int      `json:"toks,omitempty"`
	// Chg: the formatter's output differs from its input (for the count of
	// non-trivial cases).
	Chg bool `json:"chg,omitempty"`
}

// runWorker runs a worker over lines [a, b) and returns its replies (in
// order; fewer than b-a when the worker ended early).
func runWorker(k string, a, b int, off int64, budget, capmb, kbudget, kcapmb int) []reply {
	self, err := os.Executable()
	if err != nil {
		die("%v", err)
	}
	cmd := exec.Command(self, "-mode", "worker", "-kind", k, "-in", *inPath,
		"-from", strconv.Itoa(a), "-to", strconv.Itoa(b), "-off", strconv.FormatInt(off, 10),
		"-budget", strconv.Itoa(budget), "-capmb", strconv.Itoa(capmb),
		"-kbudget", strconv.Itoa(kbudget), "-kcapmb", strconv.Itoa(kcapmb),
		"-sample", strconv.Itoa(*sampleN), "-seed", strconv.Itoa(*seed), "-total", strconv.Itoa(*total),
		"-filecap", strconv.Itoa(*fileCap))
	cmd.Env = append(os.Environ(), "GOMAXPROCS=2")
	cmd.Stderr = os.Stderr
	stdout, err := cmd.StdoutPipe()
	if err != nil {
		die("%v", err)
	}
	if err := cmd.Start(); err != nil {
		die("%v", err)
	}
	var out []reply
	sc := bufio.NewScanner(stdout)
	sc.Buffer(make([]byte, 1<<20), 1<<30)
	for sc.Scan() {
		var r reply
		if err := json.Unmarshal(sc.Bytes(), &r); err != nil {
			die("worker said %q: %v", sc.Text(), err)
		}
		out = append(out, r)
	}
	cmd.Wait()
	return out
}

func parent(k string) {
	lines, offs := readLines(*inPath, 0, -1)
	n := len(lines)
	*total = n
	flagged := make([]bool, n)
	if k == "indent" {
		for i, l := range lines {
			// cheap peek; the worker parses properly
			flagged[i] = strings.Contains(string(l), `"k":true`)
		}
	}
	rows := make([]json.RawMessage, n)
	stats := struct {
		Rows, Restarts, Confirmed, Flaky, Died int
		Acc, Tok, Toks, Chg                    int
	}{}
	pairs, triples := map[string]bool{}, map[string]bool{}
	var mu sync.Mutex
	var wg sync.WaitGroup
	j := *jobs
	if j < 1 {
		j = 1
	}
	// Blocks of lines are handed out dynamically: slow items (watchdog
	// budgets) cluster, e.g. the longest texts come last.
	per := n / (j * 6)
	if per < 32 {
		per = 32
	}
	var qmu sync.Mutex
	nextBlock := 0
	take := func() (int, int) {
		qmu.Lock()
		defer qmu.Unlock()
		a := nextBlock
		if a >= n {
			return n, n
		}
		b := a + per
		if b > n {
			b = n
		}
		nextBlock = b
		return a, b
	}
	for w := 0; w < j; w++ {
		wg.Add(1)
		go func() {
			defer wg.Done()
			for {
				a, b := take()
				if a >= b {
					return
				}
				for a < b {
					rs := runWorker(k, a, b, offs[a], *budgetMs, *capMB, *kBudget, *kCapMB)
					next := a
					for _, r := range rs {
						if r.I != next {
							die("worker replied for %d, expected %d", r.I, next)
						}
						if r.Bad && !flagged[r.I] && !*noConf {
							// second opinion: fresh process, 4x budget, 4x cap
							c := runWorker(k, r.I, r.I+1, offs[r.I], 4**budgetMs, 4**capMB, 4**budgetMs, 4**capMB)
							mu.Lock()
							if len(c) == 1 && c[0].Bad {
								stats.Confirmed++
								r = c[0]
							} else if len(c) == 1 {
								stats.Flaky++
								r = c[0]
							} else {
								stats.Died++
							}
							mu.Unlock()
						}
						row := r.R
						if r.Chg {
							mu.Lock()
							stats.Chg++
							mu.Unlock()
						}
						if k == "wuffs" {
							mu.Lock()
							for _, p := range r.Pairs {
								pairs[p] = true
							}
							for _, p := range r.Triples {
								triples[p] = true
							}
							if r.Acc {
								stats.Acc++
								stats.Toks += r.Toks
							}
							if r.Tok {
								stats.Tok++
							}
							mu.Unlock()
						}
						if r.Fine || len(row) == 0 || string(row) == "null" {
							next++
							continue
						}
						rows[r.I] = row
						next++
					}
					if next < b {
						mu.Lock()
						stats.Restarts++
						mu.Unlock()
						if next == a && len(rs) == 0 {
							// the worker died without a word on line `a` (killed?)
							rows[a] = json.RawMessage(`{"died":true}`)
							mu.Lock()
							stats.Died++
							mu.Unlock()
							next = a + 1
						}
					}
					a = next
				}
			}
		}()
	}
	wg.Wait()
	stats.Rows = n
	// keep the rows that were written out
	kept := rows[:0]
	for _, r := range rows {
		if r != nil {
			kept = append(kept, r)
		}
	}
	rows = kept
	n = len(rows)
	// write chunks
	nfiles := 0
	for a := 0; a < n || (n == 0 && nfiles == 0); a += *chunk {
		b := a + *chunk
		if b > n {
			b = n
		}
		name := fmt.Sprintf("%s-%03d.json", *outPath, nfiles)
		f, err := os.Create(name)
		if err != nil {
			die("%v", err)
		}
		w := bufio.NewWriterSize(f, 1<<20)
		w.WriteString("[")
		for i := a; i < b; i++ {
			if i > a {
				w.WriteString(",\n")
			}
			w.Write(rows[i])
		}
		w.WriteString("]\n")
		w.Flush()
		f.Close()
		nfiles++
		if n == 0 {
			break
		}
	}
	if *statsOut != "" {
		pl := make([]string, 0, len(pairs))
		for p := range pairs {
			pl = append(pl, p)
		}
		sort.Strings(pl)
		b, _ := json.Marshal(map[string]interface{}{"pairs": pl, "n_pairs": len(pairs), "n_triples": len(triples)})
		os.WriteFile(*statsOut, b, 0o644)
	}
	js, _ := json.Marshal(map[string]interface{}{"items": stats.Rows, "accepted": stats.Acc, "tokenized": stats.Tok,
		"tokens_in_accepted": stats.Toks, "changed": stats.Chg, "n_pairs": len(pairs), "n_triples": len(triples), "rows": n, "files": nfiles, "restarts": stats.Restarts,
		"confirmed_bad": stats.Confirmed, "flaky": stats.Flaky, "died": stats.Died})
	fmt.Println(string(js))
}

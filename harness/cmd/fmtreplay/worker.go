package main

import (
	"bufio"
	"bytes"
	"encoding/json"
	"fmt"
	"os"
	"runtime"
	"sync"
	"time"

	"github.com/google/wuffs/lib/dumbindent"
)

// The watchdog.  guard() brackets one call into the code under test; the
// ticker goroutine ends the process (after writing the row as far as it is
// known) when the call in flight is over its budget or the heap over its cap.
var wd struct {
	mu       sync.Mutex
	active   bool
	start    time.Time
	budget   time.Duration
	capBytes uint64
	// onFire builds the reply line for the item in flight, given the status
	// ("hang" or "runaway") of the call in flight.
	onFire func(status string) reply
}

var stdout = bufio.NewWriterSize(os.Stdout, 1<<20)

func startWatchdog() {
	go func() {
		var ms runtime.MemStats
		tick := 0
		for {
			time.Sleep(10 * time.Millisecond)
			tick++
			wd.mu.Lock()
			if !wd.active {
				wd.mu.Unlock()
				continue
			}
			status := ""
			if time.Since(wd.start) > wd.budget {
				status = "hang"
			} else if tick%5 == 0 {
				runtime.ReadMemStats(&ms)
				if ms.HeapAlloc > wd.capBytes {
					status = "runaway"
				}
			}
			if status == "" {
				wd.mu.Unlock()
				continue
			}
			r := wd.onFire(status)
			r.Bad = true
			b, _ := json.Marshal(r)
			stdout.Write(b)
			stdout.WriteByte('\n')
			stdout.Flush()
			os.Exit(3)
		}
	}()
}

// guard runs f under the watchdog; a panic of f is returned as a string.
func guard(budget time.Duration, capBytes uint64, f func()) (panicked string) {
	wd.mu.Lock()
	wd.active, wd.start, wd.budget, wd.capBytes = true, time.Now(), budget, capBytes
	wd.mu.Unlock()
	defer func() {
		wd.mu.Lock()
		wd.active = false
		wd.mu.Unlock()
		if e := recover(); e != nil {
			panicked = fmt.Sprint(e)
		}
	}()
	f()
	return ""
}

func worker() {
	cnt := -1
	if *to >= 0 {
		cnt = *to - *from
	}
	lines, _ := readLines(*inPath, *offFlag, cnt)
	startWatchdog()
	for j := range lines {
		i := *from + j
		var r reply
		switch *kind {
		case "indent":
			r = indentOne(i, lines[j])
		case "wuffs":
			r = wuffsOne(i, lines[j])
		default:
			die("unknown -kind %q", *kind)
		}
		out, err := json.Marshal(r)
		if err != nil {
			die("%v", err)
		}
		stdout.Write(out)
		stdout.WriteByte('\n')
	}
	stdout.Flush()
}

// ------------------------------------------------------------------ indent

type indentItem struct {
	T []int `json:"t"`
	K bool  `json:"k"`
	// E is CLexical!StripLines(t) as exported by TLC (every stripped line
	// followed by NL); HasE tells whether the line carried one.
	E *[]int `json:"e"`
}

// one option's record: s/q are the statuses of the first and the second call
// ("ok", "hang", "runaway", "panic", "skipped"), o/p their outputs.
type indentAns struct {
	S string `json:"s"`
	O []int  `json:"o"`
	Q string `json:"q"`
	P []int  `json:"p"`
	// Msg is the panic value, if any (not read by the specification).
	Msg string `json:"msg,omitempty"`
}

type indentRow struct {
	T []int       `json:"t"`
	K bool        `json:"k"`
	R []indentAns `json:"r"`
	// Cand: some answer differs from the expectation exported by TLC (or did
	// not arrive); Sampled: chosen by the seeded sample.  Not read by the
	// specification: TLC judges the row from t and r alone.
	Cand    bool `json:"cand"`
	Sampled bool `json:"sampled"`
	// NoExp: the input line carried no expectation (a committed witness, a
	// replay); Cand was then computed against stripOut(t) and is only a hint.
	NoExp bool `json:"noexp,omitempty"`
}

// stripOut brings an output of FormatBytes to the shape of the expectation
// that TLC exports (CLexical!Flatten(StripLines(t))) so that the two can be
// compared byte for byte: lines without their leading and trailing blanks,
// without the empty lines at either end, each followed by NL.
func stripOut(b []byte) []byte {
	lines := bytes.Split(b, []byte{'\n'})
	for i, l := range lines {
		lines[i] = bytes.Trim(l, " \t")
	}
	for len(lines) > 0 && len(lines[len(lines)-1]) == 0 {
		lines = lines[:len(lines)-1]
	}
	for len(lines) > 0 && len(lines[0]) == 0 {
		lines = lines[1:]
	}
	var out []byte
	for _, l := range lines {
		out = append(out, l...)
		out = append(out, '\n')
	}
	return out
}

func sampled(i int) bool {
	if *sampleN <= 0 || *total <= 0 {
		return false
	}
	h := uint64(i)*0x9E3779B97F4A7C15 + uint64(*seed)*0xD1B54A32D192ED03
	h ^= h >> 29
	h *= 0xBF58476D1CE4E5B9
	h ^= h >> 32
	return h%uint64(*total) < uint64(*sampleN)
}

var indentOpts = []*dumbindent.Options{
	{Spaces: 2},
	{Spaces: 4},
	{Tabs: true},
}

func toInts(b []byte) []int {
	r := make([]int, len(b))
	for i, c := range b {
		r[i] = int(c)
	}
	return r
}

func indentOne(i int, line []byte) reply {
	var it indentItem
	if err := json.Unmarshal(line, &it); err != nil {
		die("line %d: %v", i, err)
	}
	src := make([]byte, len(it.T))
	for j, c := range it.T {
		if c < 0 || c > 255 {
			die("line %d: byte %d", i, c)
		}
		src[j] = byte(c)
	}
	budget, capb := time.Duration(*budgetMs)*time.Millisecond, uint64(*capMB)<<20
	if it.K {
		budget, capb = time.Duration(*kBudget)*time.Millisecond, uint64(*kCapMB)<<20
	}
	if m := uint64(len(src)) * 64; m > capb {
		capb = m
	}
	row := indentRow{T: it.T, K: it.K, R: make([]indentAns, len(indentOpts))}
	for j := range row.R {
		row.R[j] = indentAns{S: "skipped", O: []int{}, Q: "skipped", P: []int{}}
	}
	cur, second := 0, false
	chg := false
	var exp []byte
	if it.E != nil {
		exp = make([]byte, len(*it.E))
		for j, c := range *it.E {
			exp[j] = byte(c)
		}
	} else {
		exp = stripOut(src)
		row.NoExp = true
	}
	mk := func(bad bool) reply {
		row.Sampled = sampled(i)
		if !row.Cand && !row.Sampled && !bad {
			return reply{I: i, Fine: true, Chg: chg}
		}
		b, err := json.Marshal(row)
		if err != nil {
			die("%v", err)
		}
		return reply{I: i, R: b, Bad: bad, Chg: chg}
	}
	wd.mu.Lock()
	wd.onFire = func(status string) reply {
		if second {
			row.R[cur].Q = status
		} else {
			row.R[cur].S = status
		}
		row.Cand = true
		return mk(true)
	}
	wd.mu.Unlock()
	bad := false
	for j, opt := range indentOpts {
		cur, second = j, false
		var out, out2 []byte
		if p := guard(budget, capb, func() { out = dumbindent.FormatBytes(nil, src, opt) }); p != "" {
			row.R[j].S, row.R[j].Msg = "panic", p
			bad, row.Cand = true, true
			break
		}
		row.R[j].S, row.R[j].O = "ok", toInts(out)
		if !bytes.Equal(out, src) {
			chg = true
		}
		second = true
		if p := guard(budget, capb, func() { out2 = dumbindent.FormatBytes(nil, out, opt) }); p != "" {
			row.R[j].Q, row.R[j].Msg = "panic", p
			bad, row.Cand = true, true
			break
		}
		row.R[j].Q, row.R[j].P = "ok", toInts(out2)
		if !bytes.Equal(stripOut(out), exp) || !bytes.Equal(out2, out) {
			row.Cand = true
		}
	}
	return mk(bad)
}

// fmtcases turns the cases that TLC exported from the small format models of
// property C07 (spec/Adler32.tla, Crc.tla, DeflateStored.tla, ZlibFrame.tla,
// GzipFrame.tla, LzwGif.tla, PngFilter.tla) into concrete files for the Wuffs
// decoders plus the expected outputs, and writes a manifest for checks/C07.py.
//
// The EXPECTATION of every case is TLC's (the "out"/"sum"/"recon" field of the
// case).  This program only transports: it writes TLC's bytes (or, for LZW
// code streams and PNG filter cases, wraps TLC's codes / filtered bytes in the
// container the decoder needs: LSB-first bit packing, GIF blocks, zlib + PNG
// chunks) and converts TLC's expected pixels to the BGRA layout of the driver.
// As a self-check of model and transport it also decodes every file with Go's
// own decoder; a disagreement between Go and TLC is recorded in the entry's
// "goref" field and is treated by the runner as a tooling error (exit 2),
// never as a verdict about Wuffs.
//
// usage: fmtcases -cases cases.ndjson -out dir [-gifevery n]
package main

import (
	"bufio"
	"bytes"
	"compress/flate"
	"compress/gzip"
	"compress/lzw"
	"compress/zlib"
	"encoding/json"
	"flag"
	"fmt"
	"hash/adler32"
	"hash/crc32"
	"hash/crc64"
	"image/gif"
	"image/png"
	"io"
	"os"
	"path/filepath"

	"verifharness/internal/c07"
)

type blockDesc struct {
	Kind string `json:"kind"`
	Pad  int    `json:"pad"`
	N    int    `json:"n"`
}

type gzMember struct {
	Len     int         `json:"len"`
	Out     []int       `json:"out"`
	Flags   int         `json:"flags"`
	Variant string      `json:"variant"`
	Blocks  []blockDesc `json:"blocks"`
}

type tlcCase struct {
	Fmt     string      `json:"fmt"`
	Bytes   []int       `json:"bytes"`
	Out     []int       `json:"out"`
	Sum     string      `json:"sum"`
	Dict    []int       `json:"dict"`
	CInfo   int         `json:"cinfo"`
	FLevel  int         `json:"flevel"`
	Blocks  []blockDesc `json:"blocks"`
	Members []gzMember  `json:"members"`
	// lzw
	LW     int    `json:"lw"`
	Prefix string `json:"prefix"`
	Codes  []int  `json:"codes"`
	Widths []int  `json:"widths"`
	// pngfilter
	W     int    `json:"w"`
	H     int    `json:"h"`
	Bpp   int    `json:"bpp"`
	Fts   []int  `json:"fts"`
	Fill  int    `json:"fill"`
	Mode  string `json:"mode"`
	Filt  []int  `json:"filt"`
	Recon []int  `json:"recon"`
}

func toBytes(v []int) []byte {
	b := make([]byte, len(v))
	for i, x := range v {
		b[i] = byte(x)
	}
	return b
}

func must(err error) {
	if err != nil {
		fmt.Fprintln(os.Stderr, "fmtcases:", err)
		os.Exit(2)
	}
}

var outDir string

func write(name string, b []byte) string {
	p, err := c07.WriteFile(outDir, name, b)
	must(err)
	return p
}

func cmp(have []byte, err error, want []byte) string {
	if err != nil {
		return "MISMATCH: Go's decoder failed: " + err.Error()
	}
	if !bytes.Equal(have, want) {
		return fmt.Sprintf("MISMATCH: Go's decoder gives %d bytes %x..., TLC expects %d bytes %x...", len(have), head(have), len(want), head(want))
	}
	return "ok"
}

func head(b []byte) []byte {
	if len(b) > 24 {
		return b[:24]
	}
	return b
}

func settings(v any) json.RawMessage {
	b, _ := json.Marshal(v)
	return b
}

// packLSB packs codes at their widths, least significant bit first (GIF order).
func packLSB(codes, widths []int) []byte {
	var out []byte
	var acc uint64
	n := uint(0)
	for i, c := range codes {
		acc |= uint64(c) << n
		n += uint(widths[i])
		for n >= 8 {
			out = append(out, byte(acc))
			acc >>= 8
			n -= 8
		}
	}
	if n > 0 {
		out = append(out, byte(acc))
	}
	return out
}

// gifAround wraps an LZW stream with literal width lw in a GIF89a file of w x 1 pixels.
func gifAround(lw, w int, stream []byte) ([]byte, [][3]byte) {
	ncol := 1 << lw
	pal := make([][3]byte, ncol)
	for i := range pal {
		pal[i] = [3]byte{byte(17 + 29*i), byte(200 - 23*i), byte(5 + 31*i*i)}
	}
	var b []byte
	b = append(b, "GIF89a"...)
	b = append(b, byte(w), byte(w>>8), 1, 0)
	b = append(b, byte(0x80|(lw-1)<<4|(lw-1)), 0, 0)
	for _, c := range pal {
		b = append(b, c[0], c[1], c[2])
	}
	b = append(b, 0x2C, 0, 0, 0, 0, byte(w), byte(w>>8), 1, 0, 0)
	b = append(b, byte(lw))
	for len(stream) > 0 {
		k := len(stream)
		if k > 255 {
			k = 255
		}
		b = append(b, byte(k))
		b = append(b, stream[:k]...)
		stream = stream[k:]
	}
	b = append(b, 0, 0x3B)
	return b, pal
}

func imgExpect(id string, cv *c07.Canvas, frameHashes []uint64) *c07.Img {
	p := write(id+".expected", cv.OutFile())
	return &c07.Img{W: cv.W, H: cv.H, Frames: len(frameHashes), Expected: p,
		OutHash: fmt.Sprintf("%016x", c07.FramesHash(frameHashes)), OutTotal: len(cv.Pix)}
}

func main() {
	casesPath := flag.String("cases", "", "ndjson file with the cases TLC exported")
	flag.StringVar(&outDir, "out", "", "output directory")
	gifEvery := flag.Int("gifevery", 3, "wrap every n-th LZW case (with 1..4000 output bytes) in a GIF file as well")
	flag.Parse()
	if *casesPath == "" || outDir == "" {
		fmt.Fprintln(os.Stderr, "usage: fmtcases -cases cases.ndjson -out dir")
		os.Exit(2)
	}
	must(os.MkdirAll(outDir, 0o755))
	f, err := os.Open(*casesPath)
	must(err)
	defer f.Close()
	sc := bufio.NewScanner(f)
	sc.Buffer(make([]byte, 1<<20), 64<<20)
	var man c07.Manifest
	idx := 0
	nlzw := 0
	for sc.Scan() {
		line := bytes.TrimSpace(sc.Bytes())
		if len(line) == 0 {
			continue
		}
		var c tlcCase
		must(json.Unmarshal(line, &c))
		idx++
		id := fmt.Sprintf("%s-%05d", c.Fmt, idx)
		switch c.Fmt {
		case "adler32", "crc32", "crc64":
			data := toBytes(c.Bytes)
			var ref string
			switch c.Fmt {
			case "adler32":
				ref = fmt.Sprintf("%08x", adler32.Checksum(data))
			case "crc32":
				ref = fmt.Sprintf("%08x", crc32.ChecksumIEEE(data))
			case "crc64":
				ref = fmt.Sprintf("%016x", crc64.Checksum(data, crc64.MakeTable(crc64.ECMA)))
			}
			e := c07.Entry{ID: id, Family: "fmt:" + c.Fmt, Dec: c.Fmt, File: write(id+".bin", data), OutLen: len(data),
				Sums: map[string]string{c.Fmt: c.Sum}, GoRef: "ok", Settings: settings(map[string]any{"bytes": c.Bytes})}
			if ref != c.Sum {
				e.GoRef = "MISMATCH: Go's " + c.Fmt + " gives " + ref + ", TLC expects " + c.Sum
			}
			man.Entries = append(man.Entries, e)

		case "deflate":
			data, want := toBytes(c.Bytes), toBytes(c.Out)
			have, err := io.ReadAll(flate.NewReader(bytes.NewReader(data)))
			man.Entries = append(man.Entries, c07.Entry{ID: id, Family: "fmt:deflate", Dec: "deflate", File: write(id+".deflate", data),
				Oracle: write(id+".out", want), OutLen: len(want), GoRef: cmp(have, err, want), Settings: settings(map[string]any{"blocks": c.Blocks})})

		case "zlib":
			data, want, dict := toBytes(c.Bytes), toBytes(c.Out), toBytes(c.Dict)
			var have []byte
			var zr io.ReadCloser
			if len(dict) > 0 {
				zr, err = zlib.NewReaderDict(bytes.NewReader(data), dict)
			} else {
				zr, err = zlib.NewReader(bytes.NewReader(data))
			}
			if err == nil {
				have, err = io.ReadAll(zr)
			}
			e := c07.Entry{ID: id, Family: "fmt:zlib", Dec: "zlib", File: write(id+".zlib", data), Oracle: write(id+".out", want), OutLen: len(want),
				GoRef: cmp(have, err, want), Settings: settings(map[string]any{"blocks": c.Blocks, "cinfo": c.CInfo, "flevel": c.FLevel, "dict": c.Dict})}
			if len(dict) > 0 {
				e.Dict = write(id+".dict", dict)
			}
			man.Entries = append(man.Entries, e)

		case "gzip":
			data, want := toBytes(c.Bytes), toBytes(c.Out)
			var have []byte
			zr, err := gzip.NewReader(bytes.NewReader(data))
			if err == nil {
				have, err = io.ReadAll(zr)
			}
			e := c07.Entry{ID: id, Family: "fmt:gzip", Dec: "gzip", File: write(id+".gz", data), Oracle: write(id+".out", want), OutLen: len(want),
				GoRef: cmp(have, err, want), Settings: settings(map[string]any{"members": c.Members})}
			for k, m := range c.Members {
				e.Chain = append(e.Chain, c07.Member{Oracle: write(fmt.Sprintf("%s.m%d.out", id, k), toBytes(m.Out)), OutLen: len(m.Out), EncLen: m.Len})
			}
			man.Entries = append(man.Entries, e)

		case "lzw":
			want := toBytes(c.Out)
			stream := packLSB(c.Codes, c.Widths)
			ref := "ok"
			if len(c.Bytes) > 0 && !bytes.Equal(stream, toBytes(c.Bytes)) {
				ref = fmt.Sprintf("MISMATCH: bit packing differs: Go %x, TLC %x", stream, toBytes(c.Bytes))
			} else {
				have, err := io.ReadAll(lzw.NewReader(bytes.NewReader(stream), lzw.LSB, c.LW))
				ref = cmp(have, err, want)
			}
			set := map[string]any{"lw": c.LW, "prefix": c.Prefix, "ncodes": len(c.Codes)}
			if len(c.Codes) <= 16 {
				set["codes"] = c.Codes
				set["widths"] = c.Widths
			} else {
				set["last_codes"] = c.Codes[len(c.Codes)-6:]
			}
			oracle := write(id+".out", want)
			man.Entries = append(man.Entries, c07.Entry{ID: id, Family: "fmt:lzw", Dec: "lzw", File: write(id+".lzw", stream), Oracle: oracle, OutLen: len(want),
				Quirks: fmt.Sprintf("0x4CEE1800:%d", c.LW+1), GoRef: ref, Settings: settings(set)})
			nlzw++
			if *gifEvery > 0 && nlzw%*gifEvery == 0 && len(want) >= 1 && len(want) <= 4000 && ref == "ok" {
				gid := "gif" + id
				gbytes, pal := gifAround(c.LW, len(want), stream)
				cv := c07.NewCanvas(len(want), 1)
				for x, v := range want {
					cv.Set(x, 0, pal[v][2], pal[v][1], pal[v][0], 255)
				}
				gref := "ok"
				if g, err := gif.DecodeAll(bytes.NewReader(gbytes)); err != nil {
					gref = "MISMATCH: Go's image/gif failed: " + err.Error()
				} else if !bytes.Equal(g.Image[0].Pix, want) {
					gref = "MISMATCH: Go's image/gif decodes other indexes than TLC expects"
				}
				man.Entries = append(man.Entries, c07.Entry{ID: gid, Family: "fmt:giflzw", Dec: "gif", File: write(gid+".gif", gbytes), OutLen: len(cv.Pix),
					Img: imgExpect(gid, cv, []uint64{c07.DriverHash(cv.Pix)}), GoRef: gref, Settings: settings(set)})
			}

		case "pngfilter":
			rowb := c.W * c.Bpp
			if len(c.Filt) != rowb*c.H || len(c.Recon) != rowb*c.H || len(c.Fts) != c.H {
				must(fmt.Errorf("case %d: inconsistent pngfilter case", idx))
			}
			var scan []byte
			for r := 0; r < c.H; r++ {
				scan = append(scan, byte(c.Fts[r]))
				scan = append(scan, toBytes(c.Filt[r*rowb:(r+1)*rowb])...)
			}
			ct := map[int]int{1: 0, 2: 4, 3: 2, 4: 6}[c.Bpp]
			levels := []int{zlib.DefaultCompression, zlib.NoCompression, zlib.BestSpeed, zlib.HuffmanOnly, zlib.BestCompression}
			level := levels[idx%len(levels)]
			parts := 1 + idx%3
			pb, err := c07.PngFromScanlines(c.W, c.H, 8, ct, scan, level, parts)
			must(err)
			cv := c07.NewCanvas(c.W, c.H)
			for y := 0; y < c.H; y++ {
				for x := 0; x < c.W; x++ {
					p := c.Recon[y*rowb+x*c.Bpp : y*rowb+(x+1)*c.Bpp]
					switch c.Bpp {
					case 1:
						cv.Set(x, y, byte(p[0]), byte(p[0]), byte(p[0]), 255)
					case 2:
						cv.Set(x, y, byte(p[0]), byte(p[0]), byte(p[0]), byte(p[1]))
					case 3:
						cv.Set(x, y, byte(p[2]), byte(p[1]), byte(p[0]), 255)
					case 4:
						cv.Set(x, y, byte(p[2]), byte(p[1]), byte(p[0]), byte(p[3]))
					}
				}
			}
			ref := "ok"
			if m, err := png.Decode(bytes.NewReader(pb)); err != nil {
				ref = "MISMATCH: Go's image/png failed: " + err.Error()
			} else {
				gv := c07.NewCanvas(c.W, c.H)
				gv.DrawFrame(m)
				if !bytes.Equal(gv.Pix, cv.Pix) {
					ref = fmt.Sprintf("MISMATCH: Go's image/png reconstructs %x, TLC expects %x", head(gv.Pix), head(cv.Pix))
				}
			}
			set := map[string]any{"w": c.W, "h": c.H, "bpp": c.Bpp, "color_type": ct, "fill": c.Fill, "mode": c.Mode, "zlib_level": level, "idat_chunks": parts}
			if c.H <= 3 {
				set["filters"] = c.Fts
				set["filtered"] = c.Filt
				set["reconstructed"] = c.Recon
			} else {
				set["filters"] = "de Bruijn B(5,3) rotation"
			}
			man.Entries = append(man.Entries, c07.Entry{ID: id, Family: "fmt:pngfilter", Dec: "png", File: write(id+".png", pb), OutLen: len(cv.Pix),
				Img: imgExpect(id, cv, []uint64{c07.DriverHash(cv.Pix)}), GoRef: ref, Settings: settings(set)})

		default:
			must(fmt.Errorf("case %d: unknown fmt %q", idx, c.Fmt))
		}
	}
	must(sc.Err())
	must(man.Save(filepath.Join(outDir, "manifest.json")))
	fmt.Printf("{\"cases\":%d,\"entries\":%d}\n", idx, len(man.Entries))
}
